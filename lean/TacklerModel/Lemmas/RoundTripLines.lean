import TacklerModel.Lemmas.RoundTrip
/-!
# Print-then-parse lemmas, continued: tags, metadata block, postings, header, transaction
-/
set_option linter.unusedSimpArgs false
namespace Tackler
namespace Syntax
open Comb

/-- after a tag: blanks and the line ending, or the next `, tag` -/
def TagRest (r : List Char) : Prop := StartsNot nameStop r ∧ StartsNot isSpace r ∨ (∃ w eol rest, r = w ++ (eol ++ rest) ∧ Blanks w ∧ IsEol eol)

theorem nameStop_comma : nameStop ',' = false := by decide

/-- one further tag: `, tag` -/
theorem pTagTail_print (parts : List (List Char)) (r : List Char) (h : PartsWF parts) (hr : StartsNot nameStop r) :
    pTagTail (',' :: ' ' :: (joinParts parts ++ r)) = .ok parts r := by
  unfold pTagTail
  rw [space0_none _ (startsNot_cons _ (by decide))]; simp only [Res.bind_ok']
  rw [chr_eq]; simp only [Res.bind_ok']
  have : space0 ([' '] ++ (joinParts parts ++ r)) = .ok [' '] (joinParts parts ++ r) :=
    space0_append [' '] _ (by simp [isSpace]) (partsWF_startsNot parts r h isSpace isSpace_of_idStart)
  simp only [List.cons_append, List.nil_append] at this
  rw [this]; simp only [Res.bind_ok']
  exact cutErr_of_ok (pMultiPartId_print parts r h hr)

/-- at the blanks before the line ending there is no further tag -/
theorem pTagTail_end (w : List Char) {eol : List Char} (he : IsEol eol) (rest : List Char) (hw : Blanks w) :
    pTagTail (w ++ (eol ++ rest)) = .bt := by
  unfold pTagTail
  rw [space0_append w _ hw (he.startsNot rest (by decide) (by decide))]; simp only [Res.bind_ok']
  rw [chr_startsNot (he.startsNot rest (by decide) (by decide))]; rfl

theorem tagsChars_eq (p0 : List (List Char)) (ps : List (List (List Char))) :
    Print.tagsChars ((p0 :: ps).map (fun parts => acctName (toPath parts))) =
      joinParts p0 ++ (ps.map (fun parts => ',' :: ' ' :: joinParts parts)).flatten := by
  unfold Print.tagsChars
  simp only [List.map_cons, List.map_map]
  have h1 : ", ".toList = [',', ' '] := by decide
  rw [intercalate_cons, acctName_toPath, h1]
  congr 2
  rw [List.map_map]
  apply List.map_congr_left
  intro parts _
  simp [acctName_toPath]

/-- **tags value** followed by trailing blanks and the line ending -/
theorem pTags_print (tags : List String) (w : List Char) {eol : List Char} (he : IsEol eol) (rest : List Char)
    (ht : TagsWF tags) (hw : Blanks w) :
    pTags (Print.tagsChars tags ++ (w ++ (eol ++ rest))) = .ok tags (w ++ (eol ++ rest)) := by
  obtain ⟨p0, ps, rfl, hall⟩ := ht
  have hstop : StartsNot nameStop (w ++ (eol ++ rest)) :=
    blanks_eol_startsNot w he rest hw nameStop_of_isSpace (by decide) (by decide)
  obtain ⟨hrep, hq⟩ := repeat0_list pTagTail pTagTail_cons (fun parts => ',' :: ' ' :: joinParts parts) id
    (StartsNot nameStop) (w ++ (eol ++ rest)) (pTagTail_end w he rest hw) hstop ps (by
      intro parts hp r hq
      refine ⟨startsNot_cons _ nameStop_comma, ?_⟩
      simpa using pTagTail_print parts r (hall parts (List.mem_cons_of_mem _ hp)) hq)
  unfold pTags
  rw [tagsChars_eq, List.append_assoc]
  rw [cutErr_of_ok (pMultiPartId_print p0 _ (hall p0 List.mem_cons_self) hq)]; simp only [Res.bind_ok']
  rw [hrep]; simp

theorem tagsWF_startsNot_space (tags : List String) (r : List Char) (ht : TagsWF tags) :
    StartsNot isSpace (Print.tagsChars tags ++ r) := by
  obtain ⟨p0, ps, rfl, hall⟩ := ht
  rw [tagsChars_eq, List.append_assoc]
  exact partsWF_startsNot p0 _ (hall p0 List.mem_cons_self) isSpace isSpace_of_idStart

/-- **tags line** -/
theorem parseMetaTags_print (L : Print.Layout) (hL : LayoutOK L) (tags : List String) (rest : List Char)
    (ht : TagsWF tags) : parseMetaTags (Print.tagsLine L (some tags) ++ rest) = .ok tags rest := by
  unfold parseMetaTags Print.tagsLine
  rw [metaLineChars_eq]
  exact metaLine_print _ pTags L.indent (Print.tagsChars tags) L.trail hL.eol rest tags hL.indent hL.indent_ne
    key_tags_startsNot (by decide) (tagsWF_startsNot_space tags _ ht) L.trail hL.trail
    (pTags_print tags L.trail hL.eol rest ht hL.trail)

/-! ## the metadata block -/

/-- a line that is not a metadata line: after its blanks it does not continue with `#` -/
def NonMeta (r : List Char) : Prop :=
  ∃ b s, r = b ++ s ∧ Blanks b ∧ StartsNot isSpace s ∧ StartsNot (fun c => c == '#') s

theorem parseMetaUuid_nonMeta {r : List Char} (h : NonMeta r) : parseMetaUuid r = .bt := by
  obtain ⟨b, s, rfl, hb, hs, hh⟩ := h; exact metaLine_other _ _ b s hb hs hh
theorem parseMetaLocation_nonMeta {r : List Char} (h : NonMeta r) : parseMetaLocation r = .bt := by
  obtain ⟨b, s, rfl, hb, hs, hh⟩ := h; exact metaLine_other _ _ b s hb hs hh
theorem parseMetaTags_nonMeta {r : List Char} (h : NonMeta r) : parseMetaTags r = .bt := by
  obtain ⟨b, s, rfl, hb, hs, hh⟩ := h; exact metaLine_other _ _ b s hb hs hh

theorem lit_mismatch (c d : Char) (k r : List Char) (h : c ≠ d) : lit (c :: k) (d :: r) = .bt := by
  simp [lit, stripPrefix, h]

section otherKey
variable (L : Print.Layout) (hL : LayoutOK L)
include hL

theorem parseMetaUuid_location (g : Geo) (r : List Char) : parseMetaUuid (Print.locationLine L (some g) ++ r) = .bt := by
  unfold parseMetaUuid Print.locationLine
  rw [metaLineChars_eq]
  exact metaLine_otherKey _ _ L.indent _ _ hL.indent hL.indent_ne key_location_startsNot (by decide) (by
    have : "location:".toList = 'l' :: "ocation:".toList := by decide
    have u : "uuid:".toList = 'u' :: "uid:".toList := by decide
    rw [this, u]; exact lit_mismatch _ _ _ _ (by decide))

theorem parseMetaUuid_tags (t : List String) (r : List Char) : parseMetaUuid (Print.tagsLine L (some t) ++ r) = .bt := by
  unfold parseMetaUuid Print.tagsLine
  rw [metaLineChars_eq]
  exact metaLine_otherKey _ _ L.indent _ _ hL.indent hL.indent_ne key_tags_startsNot (by decide) (by
    have : "tags:".toList = 't' :: "ags:".toList := by decide
    have u : "uuid:".toList = 'u' :: "uid:".toList := by decide
    rw [this, u]; exact lit_mismatch _ _ _ _ (by decide))

theorem parseMetaLocation_uuid (u : String) (r : List Char) : parseMetaLocation (Print.uuidLine L (some u) ++ r) = .bt := by
  unfold parseMetaLocation Print.uuidLine
  rw [metaLineChars_eq]
  exact metaLine_otherKey _ _ L.indent _ _ hL.indent hL.indent_ne key_uuid_startsNot (by decide) (by
    have : "location:".toList = 'l' :: "ocation:".toList := by decide
    have u : "uuid:".toList = 'u' :: "uid:".toList := by decide
    rw [this, u]; exact lit_mismatch _ _ _ _ (by decide))

theorem parseMetaLocation_tags (t : List String) (r : List Char) : parseMetaLocation (Print.tagsLine L (some t) ++ r) = .bt := by
  unfold parseMetaLocation Print.tagsLine
  rw [metaLineChars_eq]
  exact metaLine_otherKey _ _ L.indent _ _ hL.indent hL.indent_ne key_tags_startsNot (by decide) (by
    have : "location:".toList = 'l' :: "ocation:".toList := by decide
    have u : "tags:".toList = 't' :: "ags:".toList := by decide
    rw [this, u]; exact lit_mismatch _ _ _ _ (by decide))

theorem parseMetaTags_uuid (u : String) (r : List Char) : parseMetaTags (Print.uuidLine L (some u) ++ r) = .bt := by
  unfold parseMetaTags Print.uuidLine
  rw [metaLineChars_eq]
  exact metaLine_otherKey _ _ L.indent _ _ hL.indent hL.indent_ne key_uuid_startsNot (by decide) (by
    have : "tags:".toList = 't' :: "ags:".toList := by decide
    have u : "uuid:".toList = 'u' :: "uid:".toList := by decide
    rw [this, u]; exact lit_mismatch _ _ _ _ (by decide))

theorem parseMetaTags_location (g : Geo) (r : List Char) : parseMetaTags (Print.locationLine L (some g) ++ r) = .bt := by
  unfold parseMetaTags Print.locationLine
  rw [metaLineChars_eq]
  exact metaLine_otherKey _ _ L.indent _ _ hL.indent hL.indent_ne key_location_startsNot (by decide) (by
    have : "location:".toList = 'l' :: "ocation:".toList := by decide
    have u : "tags:".toList = 't' :: "ags:".toList := by decide
    rw [this, u]; exact lit_mismatch _ _ _ _ (by decide))

end otherKey

/-- header metadata the parser can produce -/
structure MetaWF (h : Header) : Prop where
  uuid : ∀ u, h.uuid = some u → UuidWF u.toList
  location : ∀ g, h.location = some g → GeoWF g
  tags : ∀ t, h.tags = some t → TagsWF t

theorem uuidLine_none (L : Print.Layout) : Print.uuidLine L none = [] := rfl
theorem locationLine_none (L : Print.Layout) : Print.locationLine L none = [] := rfl
theorem tagsLine_none (L : Print.Layout) : Print.tagsLine L none = [] := rfl

def metaBlock (L : Print.Layout) (h : Header) : List Char := (L.metaOrder.map (Print.metaItem L h)).flatten

/-- **metadata block**: whatever subset of uuid / location / tags is present and in whichever order the
    layout prints them, `opt(parse_txn_meta)` yields exactly these values -/
theorem parseTxnMeta_print (L : Print.Layout) (hL : LayoutOK L) (h : Header) (rest : List Char)
    (hm : MetaWF h) (hr : NonMeta rest) :
    ∃ m, opt parseTxnMeta (metaBlock L h ++ rest) = .ok m rest ∧
      metaUuid m = h.uuid ∧ metaLocation m = h.location ∧ metaTags m = h.tags := by
  have eu := parseMetaUuid_nonMeta hr
  have el := parseMetaLocation_nonMeta hr
  have et := parseMetaTags_nonMeta hr
  have hord := hL.order
  obtain ⟨ts, code, desc, uuid, loc, tags, comments⟩ := h
  simp only [metaBlock]
  have pu : ∀ u r, uuid = some u → parseMetaUuid (Print.uuidLine L (some u) ++ r) = .ok u r :=
    fun u r e => parseMetaUuid_print L hL u r (hm.uuid u e)
  have pl : ∀ g r, loc = some g → parseMetaLocation (Print.locationLine L (some g) ++ r) = .ok g r :=
    fun g r e => parseMetaLocation_print L hL g r (hm.location g e)
  have pt : ∀ t r, tags = some t → parseMetaTags (Print.tagsLine L (some t) ++ r) = .ok t r :=
    fun t r e => parseMetaTags_print L hL t r (hm.tags t e)
  simp only [List.mem_cons, List.not_mem_nil, or_false] at hord
  rcases hord with ho | ho | ho | ho | ho | ho <;> rw [ho] <;>
  cases uuid <;> cases loc <;> cases tags <;>
  simp only [List.map_cons, List.map_nil, List.flatten_cons, List.flatten_nil, Print.metaItem, uuidLine_none,
    locationLine_none, tagsLine_none, List.nil_append, List.append_nil, List.append_assoc,
    if_true, if_false, Nat.reduceEqDiff, reduceIte] <;>
  simp only [parseTxnMeta, alt, opt, permutationUuidTagsOLocation, permutationUuidLocationOTags, permutationUuid,
    permutationTagsUuidOLocation, permutationTagsLocationOUuid, permutationTags,
    permutationLocationUuidOTags, permutationLocationTagsOUuid, permutationLocation,
    eu, el, et, pu, pl, pt,
    parseMetaUuid_location L hL, parseMetaUuid_tags L hL, parseMetaLocation_uuid L hL, parseMetaLocation_tags L hL,
    parseMetaTags_uuid L hL, parseMetaTags_location L hL,
    Res.bind_ok', Res.bind_bt, Res.bind_cut] <;>
  exact ⟨_, rfl, rfl, rfl, rfl⟩

/-! ## postings -/

/-- what follows the value of a posting: blanks, then a comment or the line ending -/
def PostTail (t : List Char) : Prop :=
  ∃ b c r, t = b ++ (c :: r) ∧ Blanks b ∧ (c = ';' ∨ c = '\n' ∨ c = '\r')

theorem postTail_startsNot {t : List Char} (h : PostTail t) (pred : Char → Bool)
    (hs : ∀ c, isSpace c = true → pred c = false) (h1 : pred ';' = false) (h2 : pred '\n' = false)
    (h3 : pred '\r' = false) : StartsNot pred t := by
  obtain ⟨b, c, r, rfl, hb, hc⟩ := h
  cases b with
  | nil => rcases hc with rfl | rfl | rfl <;> exact startsNot_cons _ (by assumption)
  | cons x t => exact startsNot_cons _ (hs x (hb x List.mem_cons_self))

theorem idChar_of_isSpace (c : Char) (h : isSpace c = true) : idChar c = false := by
  simp [isSpace] at h
  rcases h with rfl | rfl <;> decide

theorem postTail_numStop {t : List Char} (h : PostTail t) : StartsNot numStop t :=
  postTail_startsNot h numStop numStop_of_isSpace (by decide) (by decide) (by decide)
theorem postTail_idChar {t : List Char} (h : PostTail t) : StartsNot idChar t :=
  postTail_startsNot h idChar idChar_of_isSpace (by decide) (by decide) (by decide)

/-- on the tail of a posting there is no unit … -/
theorem pUnit_tail {t : List Char} (h : PostTail t) : pUnit t = .bt := by
  obtain ⟨b, c, r, rfl, hb, hc⟩ := h
  have hcs : isSpace c = false := by rcases hc with rfl | rfl | rfl <;> decide
  have hci : idStartChar c = false := by rcases hc with rfl | rfl | rfl <;> decide
  unfold pUnit
  by_cases hne : b = []
  · subst hne; rw [List.nil_append, space1_none (startsNot_cons _ hcs)]; rfl
  · rw [space1_append b _ hne hb (startsNot_cons _ hcs)]; simp only [Res.bind_ok']
    rw [pIdentifier_startsNot (startsNot_cons _ hci)]; rfl

theorem pOpeningPos_other (b s : List Char) (hb : Blanks b) (hs : StartsNot isSpace s)
    (h : StartsNot (fun c => c == '{') s) : pOpeningPos (b ++ s) = .bt := by
  unfold pOpeningPos
  by_cases hne : b = []
  · subst hne; rw [List.nil_append, space1_none hs]; rfl
  · rw [space1_append b s hne hb hs]; simp only [Res.bind_ok']
    rw [chr_startsNot h]; rfl

theorem pClosingPos_other (b s : List Char) (hb : Blanks b) (hs : StartsNot isSpace s)
    (h1 : StartsNot (fun c => c == '@') s) (h2 : StartsNot (fun c => c == '=') s) : pClosingPos (b ++ s) = .bt := by
  unfold pClosingPos
  by_cases hne : b = []
  · subst hne; rw [List.nil_append, space1_none hs]; rfl
  · rw [space1_append b s hne hb hs]; simp only [Res.bind_ok']
    rw [alt_of_bt (chr_startsNot h1), chr_startsNot h2]; rfl

/-- … and no value position -/
theorem pPosition_tail {t : List Char} (h : PostTail t) : pPosition t = .bt := by
  obtain ⟨b, c, r, rfl, hb, hc⟩ := h
  have hcs : StartsNot isSpace (c :: r) := startsNot_cons _ (by rcases hc with rfl | rfl | rfl <;> decide)
  have h1 : StartsNot (fun c => c == '{') (c :: r) := startsNot_cons _ (by rcases hc with rfl | rfl | rfl <;> decide)
  have h2 : StartsNot (fun c => c == '@') (c :: r) := startsNot_cons _ (by rcases hc with rfl | rfl | rfl <;> decide)
  have h3 : StartsNot (fun c => c == '=') (c :: r) := startsNot_cons _ (by rcases hc with rfl | rfl | rfl <;> decide)
  unfold pPosition
  rw [alt_of_bt (by
    show (pOpeningPos (b ++ c :: r)).bind _ = .bt
    rw [pOpeningPos_other b _ hb hcs h1]; rfl)]
  rw [alt_of_bt (by
    show (pOpeningPos (b ++ c :: r)).map _ = .bt
    rw [pOpeningPos_other b _ hb hcs h1]; rfl)]
  show (pClosingPos (b ++ c :: r)).map _ = .bt
  rw [pClosingPos_other b _ hb hcs h2 h3]; rfl

theorem identWF_startsNot (c r : List Char) (h : IdentWF c) (pred : Char → Bool)
    (hp : ∀ x, idStartChar x = true → pred x = false) : StartsNot pred (c ++ r) := by
  obtain ⟨x, t, rfl, hx, _⟩ := h
  exact startsNot_cons _ (hp x hx)

/-- **closing position** ` @ price COMM` / ` = total COMM` -/
theorem pClosingPos_print (k : Char) (hk : k = '@' ∨ k = '=') (v : Dec) (c rest : List Char)
    (hv : NumWF v) (hc : IdentWF c) (hr : StartsNot idChar rest) :
    pClosingPos (' ' :: k :: ' ' :: (v.toChars ++ (' ' :: (c ++ rest)))) =
      .ok (if k = '=' then Closing.total ⟨v, String.ofList c⟩ else Closing.unitPrice ⟨v, String.ofList c⟩) rest := by
  have hks : isSpace k = false := by rcases hk with rfl | rfl <;> decide
  unfold pClosingPos
  rw [space1_one _ (startsNot_cons _ hks)]; simp only [Res.bind_ok']
  have halt : alt (chr '@') (chr '=') (k :: ' ' :: (v.toChars ++ (' ' :: (c ++ rest)))) =
      .ok k (' ' :: (v.toChars ++ (' ' :: (c ++ rest)))) := by
    rcases hk with rfl | rfl
    · exact alt_of_ok (chr_eq _ _)
    · rw [alt_of_bt (chr_ne _ (by decide))]; exact chr_eq _ _
  rw [halt]; simp only [Res.bind_ok']
  rw [cutErr_of_ok (space1_one _ (toChars_startsNot_space v _))]; simp only [Res.bind_ok']
  rw [cutErr_of_ok (pNumber_print v _ hv (startsNot_cons _ (by decide)))]; simp only [Res.bind_ok']
  rw [cutErr_of_ok (space1_one _ (identWF_startsNot c rest hc isSpace isSpace_of_idStart))]; simp only [Res.bind_ok']
  rw [cutErr_of_ok (pIdentifier_print c rest hc hr)]; simp only [Res.bind_ok']
  rcases hk with rfl | rfl <;> simp [closingOf]

/-- a closing position is not an opening position -/
theorem pOpeningPos_closing (k : Char) (hk : k = '@' ∨ k = '=') (r : List Char) : pOpeningPos (' ' :: k :: r) = .bt := by
  have := pOpeningPos_other [' '] (k :: r) (by simp [Blanks, isSpace])
    (startsNot_cons _ (by rcases hk with rfl | rfl <;> decide))
    (startsNot_cons _ (by rcases hk with rfl | rfl <;> decide))
  simpa using this

/-- **value position** of an export line: only a closing position -/
theorem pPosition_print (k : Char) (hk : k = '@' ∨ k = '=') (v : Dec) (c rest : List Char)
    (hv : NumWF v) (hc : IdentWF c) (hr : StartsNot idChar rest) :
    pPosition (' ' :: k :: ' ' :: (v.toChars ++ (' ' :: (c ++ rest)))) =
      .ok (none, some (if k = '=' then Closing.total ⟨v, String.ofList c⟩ else Closing.unitPrice ⟨v, String.ofList c⟩)) rest := by
  unfold pPosition
  rw [alt_of_bt (by
    show (pOpeningPos _).bind _ = .bt
    rw [pOpeningPos_closing k hk]; rfl)]
  rw [alt_of_bt (by
    show (pOpeningPos _).map _ = .bt
    rw [pOpeningPos_closing k hk]; rfl)]
  show (pClosingPos _).map _ = _
  rw [pClosingPos_print k hk v c rest hv hc hr]; rfl

end Syntax
end Tackler

import TacklerModel.Lemmas.RoundTrip
/-!
# Print-then-parse lemmas, continued: tags, metadata block, postings, header, transaction
-/
namespace Tackler
namespace Syntax
open Comb

/-- after a tag: blanks and the line ending, or the next `, tag` -/
def TagRest (r : List Char) : Prop := StartsNot nameStop r ∧ StartsNot isSpace r ∨ (∃ w eol rest, r = w ++ (eol ++ rest) ∧ Blanks w ∧ IsEol eol)

theorem nameStop_comma : nameStop ',' = false := by decide

/-- one further tag: `, tag` -/
theorem pTagTail_print (parts : List (List Char)) (r : List Char) (h : PartsWF parts) (hr : StartsNot nameStop r) :
    pTagTail (',' :: ' ' :: (joinParts parts ++ r)) = .ok parts r := by
  unfold pTagTail
  rw [space0_none _ (startsNot_cons _ (by decide))]; simp only [Res.bind_ok']
  rw [chr_eq]; simp only [Res.bind_ok']
  have : space0 ([' '] ++ (joinParts parts ++ r)) = .ok [' '] (joinParts parts ++ r) :=
    space0_append [' '] _ (by simp [isSpace]) (partsWF_startsNot parts r h isSpace isSpace_of_idStart)
  simp only [List.cons_append, List.nil_append] at this
  rw [this]; simp only [Res.bind_ok']
  exact cutErr_of_ok (pMultiPartId_print parts r h hr)

/-- at the blanks before the line ending there is no further tag -/
theorem pTagTail_end (w : List Char) {eol : List Char} (he : IsEol eol) (rest : List Char) (hw : Blanks w) :
    pTagTail (w ++ (eol ++ rest)) = .bt := by
  unfold pTagTail
  rw [space0_append w _ hw (he.startsNot rest (by decide) (by decide))]; simp only [Res.bind_ok']
  rw [chr_startsNot (he.startsNot rest (by decide) (by decide))]; rfl

theorem tagsChars_eq (p0 : List (List Char)) (ps : List (List (List Char))) :
    Print.tagsChars ((p0 :: ps).map (fun parts => acctName (toPath parts))) =
      joinParts p0 ++ (ps.map (fun parts => ',' :: ' ' :: joinParts parts)).flatten := by
  unfold Print.tagsChars
  simp only [List.map_cons, List.map_map]
  have h1 : ", ".toList = [',', ' '] := by decide
  rw [intercalate_cons, acctName_toPath, h1]
  congr 2
  rw [List.map_map]
  apply List.map_congr_left
  intro parts _
  simp [acctName_toPath]

/-- **tags value** followed by trailing blanks and the line ending -/
theorem pTags_print (tags : List String) (w : List Char) {eol : List Char} (he : IsEol eol) (rest : List Char)
    (ht : TagsWF tags) (hw : Blanks w) :
    pTags (Print.tagsChars tags ++ (w ++ (eol ++ rest))) = .ok tags (w ++ (eol ++ rest)) := by
  obtain ⟨p0, ps, rfl, hall⟩ := ht
  have hstop : StartsNot nameStop (w ++ (eol ++ rest)) :=
    blanks_eol_startsNot w he rest hw nameStop_of_isSpace (by decide) (by decide)
  obtain ⟨hrep, hq⟩ := repeat0_list pTagTail pTagTail_cons (fun parts => ',' :: ' ' :: joinParts parts) id
    (StartsNot nameStop) (w ++ (eol ++ rest)) (pTagTail_end w he rest hw) hstop ps (by
      intro parts hp r hq
      refine ⟨startsNot_cons _ nameStop_comma, ?_⟩
      simpa using pTagTail_print parts r (hall parts (List.mem_cons_of_mem _ hp)) hq)
  unfold pTags
  rw [tagsChars_eq, List.append_assoc]
  rw [cutErr_of_ok (pMultiPartId_print p0 _ (hall p0 List.mem_cons_self) hq)]; simp only [Res.bind_ok']
  rw [hrep]; simp

theorem tagsWF_startsNot_space (tags : List String) (r : List Char) (ht : TagsWF tags) :
    StartsNot isSpace (Print.tagsChars tags ++ r) := by
  obtain ⟨p0, ps, rfl, hall⟩ := ht
  rw [tagsChars_eq, List.append_assoc]
  exact partsWF_startsNot p0 _ (hall p0 List.mem_cons_self) isSpace isSpace_of_idStart

/-- **tags line** -/
theorem parseMetaTags_print (L : Print.Layout) (hL : LayoutOK L) (tags : List String) (rest : List Char)
    (ht : TagsWF tags) : parseMetaTags (Print.tagsLine L (some tags) ++ rest) = .ok tags rest := by
  unfold parseMetaTags Print.tagsLine
  rw [metaLineChars_eq]
  exact metaLine_print _ pTags L.indent (Print.tagsChars tags) L.trail hL.eol rest tags hL.indent hL.indent_ne
    key_tags_startsNot (by decide) (tagsWF_startsNot_space tags _ ht) L.trail hL.trail
    (pTags_print tags L.trail hL.eol rest ht hL.trail)

end Syntax
end Tackler

import TacklerModel.Lemmas.AccountSums
/-! Spec B of C02: `completeTree` (bubble up from every account sum, flatten, collect into the ordered set)
    yields the account sums plus one zero entry per never-posted ancestor, strictly sorted by `keyLt`. -/
namespace Tackler
namespace C02

open KeyOrder

/-! ### `bubbleUp` -/

theorem isParentOf_iff (p c : AKey) : isParentOf p c = true ↔ p = (c.1, parentPath c.2) := by
  simp [isParentOf, Prod.ext_iff]

/-- a proper non-empty prefix is a prefix of the parent path -/
theorem prefix_parent {q p : Path} (h : q <+: p) (hne : q ≠ p) : q <+: parentPath p := by
  unfold parentPath
  rw [List.dropLast_eq_take]
  have hlen : q.length < p.length := by
    have := h.length_le
    rcases Nat.lt_or_ge q.length p.length with h' | h'
    · exact h'
    · exact absurd (h.eq_of_length (by omega)) hne
  apply List.prefix_of_prefix_length_le h (List.take_prefix _ _)
  rw [List.length_take]; omega

theorem parent_nonempty {p : Path} (h : ¬ p.length ≤ 1) : parentPath p ≠ [] := by
  unfold parentPath
  intro e
  have := congrArg List.length e
  rw [List.length_dropLast] at this
  simp at this; omega

/-- what one entry of a bubble-up chain from `me` looks like -/
def ChainEntry (sums : List (AKey × Dec)) (me x : AKey × Dec) : Prop :=
  x.1.1 = me.1.1 ∧ x.1.2 ≠ [] ∧ x.1.2 <+: me.1.2 ∧
  (x = me ∨ x ∈ sums ∨ (x.2 = Dec.zero ∧ x.1 ∉ sums.map (·.1)))

theorem bubbleUp_spec (st : Settings) (sums : List (AKey × Dec)) :
    ∀ (fuel : Nat) (me : AKey × Dec) (l : List (AKey × Dec)), me.1.2 ≠ [] →
      bubbleUp st sums fuel me = .ok l →
      (∀ x ∈ l, ChainEntry sums me x) ∧
      (∀ q : Path, q ≠ [] → q <+: me.1.2 → ∃ x ∈ l, x.1 = (me.1.1, q)) := by
  intro fuel
  induction fuel with
  | zero => intro me l _ h; simp [bubbleUp] at h
  | succ fuel ih =>
    intro me l hne h
    simp only [bubbleUp] at h
    split at h
    · -- root
      rename_i hroot
      cases h
      constructor
      · intro x hx
        simp only [List.mem_singleton] at hx
        subst hx
        exact ⟨rfl, hne, List.prefix_refl _, .inl rfl⟩
      · intro q hq hpre
        have hql : 1 ≤ q.length := by
          cases q with
          | nil => exact absurd rfl hq
          | cons _ _ => simp
        have : q = me.1.2 := hpre.eq_of_length (by have := hpre.length_le; omega)
        exact ⟨me, List.mem_singleton.mpr rfl, by rw [this]⟩
    · rename_i hroot
      -- common step: the chain of the parent entry `g`, then `me`
      have step : ∀ (g : AKey × Dec) (l' : List (AKey × Dec)), g.1 = (me.1.1, parentPath me.1.2) →
          (g ∈ sums ∨ (g.2 = Dec.zero ∧ g.1 ∉ sums.map (·.1))) →
          bubbleUp st sums fuel g = .ok l' → l = l' ++ [me] →
          (∀ x ∈ l, ChainEntry sums me x) ∧
          (∀ q : Path, q ≠ [] → q <+: me.1.2 → ∃ x ∈ l, x.1 = (me.1.1, q)) := by
        intro g l' hg hgs hl' hl
        have hg1 : g.1.1 = me.1.1 := by rw [hg]
        have hg2 : g.1.2 = parentPath me.1.2 := by rw [hg]
        obtain ⟨ih1, ih2⟩ := ih g l' (by rw [hg2]; exact parent_nonempty hroot) hl'
        subst hl
        constructor
        · intro x hx
          rcases List.mem_append.mp hx with hx | hx
          · obtain ⟨a, b, c, d⟩ := ih1 x hx
            refine ⟨a.trans hg1, b, ?_, ?_⟩
            · rw [hg2] at c; exact c.trans (List.dropLast_prefix _)
            · rcases d with d | d | d
              · subst d
                rcases hgs with hgs | hgs
                · exact .inr (.inl hgs)
                · exact .inr (.inr hgs)
              · exact .inr (.inl d)
              · exact .inr (.inr d)
          · simp only [List.mem_singleton] at hx
            subst hx
            exact ⟨rfl, hne, List.prefix_refl _, .inl rfl⟩
        · intro q hq hpre
          by_cases hqe : q = me.1.2
          · exact ⟨me, by simp, by rw [hqe]⟩
          · obtain ⟨x, hx, hxk⟩ := ih2 q hq (by rw [hg2]; exact prefix_parent hpre hqe)
            exact ⟨x, List.mem_append_left _ hx, by rw [hxk, hg1]⟩
      split at h
      · rename_i p hfind
        have hp : p ∈ sums := List.mem_of_find?_eq_some hfind
        have hpk : p.1 = (me.1.1, parentPath me.1.2) := by
          have := List.find?_some hfind
          simpa [isParentOf_iff] using this
        obtain ⟨l', hl', hl⟩ := (Outcome.map_ok _ _ _).mp h
        exact step p l' hpk (.inl hp) hl' hl.symm
      · rename_i hfind
        split at h
        · cases h
        · cases h
        · obtain ⟨l', hl', hl⟩ := (Outcome.map_ok _ _ _).mp h
          refine step ((me.1.1, parentPath me.1.2), Dec.zero) l' rfl (.inr ⟨rfl, ?_⟩) hl' hl.symm
          intro hmem
          obtain ⟨s, hs, hsk⟩ := List.mem_map.mp hmem
          have := (List.find?_eq_none.mp hfind) s hs
          apply this
          rw [isParentOf_iff]; exact hsk

theorem bubbleAll_spec (st : Settings) (sums : List (AKey × Dec)) :
    ∀ (l : List (AKey × Dec)) (ls : List (List (AKey × Dec))), (∀ s ∈ l, s.1.2 ≠ []) →
      bubbleAll st sums l = .ok ls →
      (∀ x ∈ ls.flatten, ∃ s ∈ l, ChainEntry sums s x) ∧
      (∀ s ∈ l, ∀ q : Path, q ≠ [] → q <+: s.1.2 → ∃ x ∈ ls.flatten, x.1 = (s.1.1, q)) := by
  intro l
  induction l with
  | nil => intro ls _ h; simp [bubbleAll] at h; subst h; simp
  | cons s rest ih =>
    intro ls hne h
    simp only [bubbleAll] at h
    split at h
    · cases h
    · cases h
    · rename_i c hc
      split at h
      · cases h
      · cases h
      · rename_i ls' hls'
        cases h
        obtain ⟨c1, c2⟩ := bubbleUp_spec st sums _ s c (hne s List.mem_cons_self) hc
        obtain ⟨ih1, ih2⟩ := ih ls' (fun s' hs' => hne s' (List.mem_cons_of_mem _ hs')) hls'
        constructor
        · intro x hx
          rw [List.flatten_cons] at hx
          rcases List.mem_append.mp hx with hx | hx
          · exact ⟨s, List.mem_cons_self, c1 x hx⟩
          · obtain ⟨s', hs', hce⟩ := ih1 x hx
            exact ⟨s', List.mem_cons_of_mem _ hs', hce⟩
        · intro s' hs' q hq hpre
          rw [List.flatten_cons]
          rcases List.mem_cons.mp hs' with rfl | hs''
          · obtain ⟨x, hx, hxk⟩ := c2 q hq hpre
            exact ⟨x, List.mem_append_left _ hx, hxk⟩
          · obtain ⟨x, hx, hxk⟩ := ih2 s' hs'' q hq hpre
            exact ⟨x, List.mem_append_right _ hx, hxk⟩

/-! ### the ordered set -/

section btree
variable (D : AKey × Dec → Prop)
  (hD : ∀ x y, D x → D y → nk x.1 = nk y.1 → x = y)

include hD in
theorem keyLt_of_pairLt (x y : AKey × Dec) (hx : D x) (hy : D y) (h : pairLt x y = true) :
    keyLt x.1 y.1 = true := by
  unfold pairLt at h
  rcases Bool.or_eq_true_iff.mp h with h | h
  · exact h
  · simp only [Bool.and_eq_true, beq_iff_eq] at h
    have := hD x y hx hy (by rw [h.1])
    subst this
    simp [Dec.ltVal] at h

theorem pairLt_false_keyLt (x y : AKey × Dec) (h : pairLt x y = false) : keyLt x.1 y.1 = false := by
  unfold pairLt at h
  simp only [Bool.or_eq_false_iff] at h
  exact h.1

include hD in
theorem btreeInsert_spec : ∀ (l : List (AKey × Dec)) (x : AKey × Dec), (∀ y ∈ l, D y) → D x →
    (l.map (·.1)).Pairwise (fun a b => keyLt a b = true) →
    ((btreeInsert l x).map (·.1)).Pairwise (fun a b => keyLt a b = true) ∧
    (∀ z, z ∈ btreeInsert l x ↔ z ∈ l ∨ z = x) := by
  intro l
  induction l with
  | nil => intro x _ _ _; simp [btreeInsert]
  | cons y t ih =>
    intro x hl hx hs
    have hy : D y := hl y List.mem_cons_self
    simp only [List.map_cons, List.pairwise_cons] at hs
    simp only [btreeInsert]
    split
    · rename_i h1
      have hlt := keyLt_of_pairLt D hD x y hx hy h1
      constructor
      · simp only [List.map_cons, List.pairwise_cons]
        refine ⟨?_, hs⟩
        intro k hk
        rcases List.mem_cons.mp hk with rfl | hk'
        · exact hlt
        · exact keyLt_trans _ _ _ hlt (hs.1 k hk')
      · intro z; simp only [List.mem_cons]; constructor
        · rintro (h | h | h)
          · exact .inr h
          · exact .inl (.inl h)
          · exact .inl (.inr h)
        · rintro ((h | h) | h)
          · exact .inr (.inl h)
          · exact .inr (.inr h)
          · exact .inl h
    · rename_i h1
      split
      · rename_i h2
        have hlt := keyLt_of_pairLt D hD y x hy hx h2
        obtain ⟨ih1, ih2⟩ := ih x (fun z hz => hl z (List.mem_cons_of_mem _ hz)) hx hs.2
        constructor
        · simp only [List.map_cons, List.pairwise_cons]
          refine ⟨?_, ih1⟩
          intro k hk
          obtain ⟨z, hz, rfl⟩ := List.mem_map.mp hk
          rcases (ih2 z).mp hz with hz' | rfl
          · exact hs.1 z.1 (List.mem_map.mpr ⟨z, hz', rfl⟩)
          · exact hlt
        · intro z; simp only [List.mem_cons, ih2 z]; constructor
          · rintro (h | h | h)
            · exact .inl (.inl h)
            · exact .inl (.inr h)
            · exact .inr h
          · rintro ((h | h) | h)
            · exact .inl h
            · exact .inr (.inl h)
            · exact .inr (.inr h)
      · rename_i h2
        have e : x = y := hD x y hx hy (nk_eq_of_not_lt _ _
          (pairLt_false_keyLt x y (by simpa using h1)) (pairLt_false_keyLt y x (by simpa using h2)))
        subst e
        constructor
        · simp only [List.map_cons, List.pairwise_cons]; exact hs
        · intro z; simp only [List.mem_cons]; constructor
          · intro h; exact .inl h
          · rintro (h | h)
            · exact h
            · exact .inl h

include hD in
theorem foldl_btreeInsert_spec : ∀ (L acc : List (AKey × Dec)), (∀ y ∈ acc, D y) → (∀ y ∈ L, D y) →
    (acc.map (·.1)).Pairwise (fun a b => keyLt a b = true) →
    ((L.foldl btreeInsert acc).map (·.1)).Pairwise (fun a b => keyLt a b = true) ∧
    (∀ z, z ∈ L.foldl btreeInsert acc ↔ z ∈ acc ∨ z ∈ L) := by
  intro L
  induction L with
  | nil => intro acc _ _ hs; simp [hs]
  | cons x t ih =>
    intro acc hacc hL hs
    simp only [List.foldl_cons]
    have hx := hL x List.mem_cons_self
    obtain ⟨s1, m1⟩ := btreeInsert_spec D hD acc x hacc hx hs
    have hacc' : ∀ y ∈ btreeInsert acc x, D y := by
      intro y hy
      rcases (m1 y).mp hy with h | rfl
      · exact hacc y h
      · exact hx
    obtain ⟨s2, m2⟩ := ih (btreeInsert acc x) hacc' (fun y hy => hL y (List.mem_cons_of_mem _ hy)) s1
    refine ⟨s2, ?_⟩
    intro z
    rw [m2 z, m1 z]; simp only [List.mem_cons]
    constructor
    · rintro ((h | h) | h)
      · exact .inl h
      · exact .inr (.inl h)
      · exact .inr (.inr h)
    · rintro (h | h | h)
      · exact .inl (.inl h)
      · exact .inl (.inr h)
      · exact .inr h

include hD in
theorem btreeCollect_spec (L : List (AKey × Dec)) (hL : ∀ y ∈ L, D y) :
    ((btreeCollect L).map (·.1)).Pairwise (fun a b => keyLt a b = true) ∧
    (∀ z, z ∈ btreeCollect L ↔ z ∈ L) := by
  have := foldl_btreeInsert_spec D hD L [] (by simp) hL (by simp)
  unfold btreeCollect
  refine ⟨this.1, ?_⟩
  intro z; rw [this.2 z]; simp

end btree

/-! ### `completeTree` -/

/-- entries of a key list with duplicate-free keys are determined by their key -/
theorem entry_eq_of_key {β} {l : List (AKey × β)} (h : (l.map (·.1)).Nodup) {a b : AKey × β}
    (ha : a ∈ l) (hb : b ∈ l) (hk : a.1 = b.1) : a = b := by
  induction l with
  | nil => cases ha
  | cons r t ih =>
    simp only [List.map_cons, List.nodup_cons, List.mem_map, not_exists, not_and] at h
    rcases List.mem_cons.mp ha with rfl | ha' <;> rcases List.mem_cons.mp hb with rfl | hb'
    · rfl
    · exact absurd hk.symm (h.1 b hb')
    · exact absurd hk (h.1 a ha')
    · exact ih h.2 ha' hb'

structure CompleteSpec (sums C : List (AKey × Dec)) : Prop where
  sorted : (C.map (·.1)).Pairwise (fun a b => keyLt a b = true)
  mem : ∀ x ∈ C, x ∈ sums ∨ (x.2 = Dec.zero ∧ x.1 ∉ sums.map (·.1))
  sub : ∀ x ∈ sums, x ∈ C
  keys : ∀ k, k ∈ C.map (·.1) ↔ ∃ s ∈ sums, k.1 = s.1.1 ∧ k.2 ≠ [] ∧ k.2 <+: s.1.2

theorem completeTree_spec (st : Settings) (posts : List BPost) (hwf : PostsWF posts)
    (sums C : List (AKey × Dec)) (hA : AccSpec posts sums) (h : completeTree st sums = .ok C) :
    CompleteSpec sums C := by
  unfold completeTree at h
  obtain ⟨ls, hls, hC⟩ := (Outcome.map_ok _ _ _).mp h
  have hsne : ∀ s ∈ sums, s.1.2 ≠ [] := by
    intro s hs
    obtain ⟨p, hp, hpk⟩ := (hA.keys s.1).mp (List.mem_map.mpr ⟨s, hs, rfl⟩)
    rw [← hpk]; exact hwf.nonempty p hp
  obtain ⟨b1, b2⟩ := bubbleAll_spec st sums sums ls hsne hls
  have hsnd : (sums.map (·.1)).Nodup := nodup_of_pairwise_keyLt _ hA.sorted
  -- the domain of the ordered set: entries of the flattened chains
  let D : AKey × Dec → Prop := fun x => x ∈ ls.flatten
  have hplay : ∀ x ∈ ls.flatten, ∃ y ∈ posts, x.1.2 <+: y.acct := by
    intro x hx
    obtain ⟨s, hs, _, _, hpre, _⟩ := b1 x hx
    obtain ⟨p, hp, hpk⟩ := (hA.keys s.1).mp (List.mem_map.mpr ⟨s, hs, rfl⟩)
    refine ⟨p, hp, ?_⟩
    have : p.acct = s.1.2 := by rw [← hpk]; rfl
    rw [this]; exact hpre
  have hcls : ∀ x ∈ ls.flatten, x ∈ sums ∨ (x.2 = Dec.zero ∧ x.1 ∉ sums.map (·.1)) := by
    intro x hx
    obtain ⟨s, hs, _, _, _, hc⟩ := b1 x hx
    rcases hc with rfl | hc | hc
    · exact .inl hs
    · exact .inl hc
    · exact .inr hc
  have hD : ∀ x y, D x → D y → nk x.1 = nk y.1 → x = y := by
    intro x y hx hy hn
    have hk : x.1 = y.1 := key_eq_of_nk posts hwf x.1 y.1 (hplay x hx) (hplay y hy) hn
    rcases hcls x hx with hxs | ⟨hx0, hxn⟩ <;> rcases hcls y hy with hys | ⟨hy0, hyn⟩
    · exact entry_eq_of_key hsnd hxs hys hk
    · exact absurd (List.mem_map.mpr ⟨x, hxs, hk⟩) hyn
    · exact absurd (List.mem_map.mpr ⟨y, hys, hk.symm⟩) hxn
    · exact Prod.ext hk (by rw [hx0, hy0])
  obtain ⟨c1, c2⟩ := btreeCollect_spec D hD ls.flatten (fun y hy => hy)
  rw [hC] at c1 c2
  refine ⟨c1, fun x hx => hcls x ((c2 x).mp hx), ?_, ?_⟩
  · intro s hs
    obtain ⟨x, hx, hxk⟩ := b2 s hs s.1.2 (hsne s hs) (List.prefix_refl _)
    have hxk' : x.1 = s.1 := by rw [hxk]
    rcases hcls x hx with hxs | ⟨_, hxn⟩
    · have := entry_eq_of_key hsnd hxs hs hxk'
      rw [← this]; exact (c2 x).mpr hx
    · exact absurd (List.mem_map.mpr ⟨s, hs, hxk'.symm⟩) hxn
  · intro k
    constructor
    · intro hk
      obtain ⟨x, hx, rfl⟩ := List.mem_map.mp hk
      obtain ⟨s, hs, h1, h2, h3, _⟩ := b1 x ((c2 x).mp hx)
      exact ⟨s, hs, h1, h2, h3⟩
    · intro ⟨s, hs, h1, h2, h3⟩
      obtain ⟨x, hx, hxk⟩ := b2 s hs k.2 h2 h3
      exact List.mem_map.mpr ⟨x, (c2 x).mpr hx, by rw [hxk, ← h1]⟩

end C02
end Tackler

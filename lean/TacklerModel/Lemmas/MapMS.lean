import TacklerModel.Model.Basic
/-! State-threaded traversal `mapMS` under a state invariant. -/
namespace Tackler

/-- If every successful step preserves `P`, then a successful traversal started in a `P`-state ends in a
    `P`-state, every output comes from some input processed in a `P`-state, and every input was
    processed successfully in a `P`-state. -/
theorem mapMS_inv {σ α β} (f : σ → α → Outcome (β × σ)) (P : σ → Prop)
    (hf : ∀ s a b s', P s → f s a = .ok (b, s') → P s') :
    ∀ (l : List α) (s s' : σ) (bs : List β), P s → mapMS f s l = .ok (bs, s') →
      P s' ∧ (∀ b ∈ bs, ∃ a ∈ l, ∃ s₁ s₂, P s₁ ∧ f s₁ a = .ok (b, s₂)) ∧
      (∀ a ∈ l, ∃ b ∈ bs, ∃ s₁ s₂, P s₁ ∧ f s₁ a = .ok (b, s₂)) := by
  intro l
  induction l with
  | nil =>
    intro s s' bs hP h
    simp [mapMS] at h
    obtain ⟨rfl, rfl⟩ := h
    exact ⟨hP, by simp, by simp⟩
  | cons a t ih =>
    intro s s' bs hP h
    simp only [mapMS] at h
    split at h
    · rename_i b0 s1 hb0
      split at h
      · rename_i bs' s2 hbs'
        simp at h
        obtain ⟨rfl, rfl⟩ := h
        have hP1 := hf s a b0 s1 hP hb0
        obtain ⟨hP2, hout, hin⟩ := ih s1 _ bs' hP1 hbs'
        refine ⟨hP2, ?_, ?_⟩
        · intro b hb
          rcases List.mem_cons.mp hb with rfl | hb'
          · exact ⟨a, List.mem_cons_self, s, s1, hP, hb0⟩
          · obtain ⟨a', ha', hx⟩ := hout b hb'
            exact ⟨a', List.mem_cons_of_mem _ ha', hx⟩
        · intro a' ha'
          rcases List.mem_cons.mp ha' with rfl | ha''
          · exact ⟨b0, List.mem_cons_self, s, s1, hP, hb0⟩
          · obtain ⟨b, hb, hx⟩ := hin a' ha''
            exact ⟨b, List.mem_cons_of_mem _ hb, hx⟩
      · cases h
      · cases h
    · cases h
    · cases h

end Tackler

import TacklerModel.Model.Order
/-! Order lemmas: `hdrLe` is a total preorder whose equivalence is equality of the header key;
    sorted lists are unique up to permutation. -/
namespace Tackler

/-! ### `optLt` is a strict linear order on `Option String` -/

theorem optLt_irrefl (a : Option String) : optLt a a = false := by
  cases a <;> simp [optLt, String.lt_irrefl]

theorem optLt_trans {a b c : Option String} (h1 : optLt a b = true) (h2 : optLt b c = true) : optLt a c = true := by
  cases a <;> cases b <;> cases c <;> simp_all [optLt]
  exact String.lt_trans h1 h2

theorem optLt_asymm {a b : Option String} (h : optLt a b = true) : optLt b a = false := by
  cases a <;> cases b <;> simp_all [optLt]
  exact String.lt_asymm h

theorem optLt_trichotomy (a b : Option String) (h1 : optLt a b = false) (h2 : optLt b a = false) : a = b := by
  cases a <;> cases b <;> simp_all [optLt]
  exact String.le_antisymm h2 h1

/-- negative transitivity: the complement of a strict linear order is transitive -/
theorem optLt_neg_trans {a b c : Option String} (h1 : optLt b a = false) (h2 : optLt c b = false) :
    optLt c a = false := by
  cases hca : optLt c a with
  | false => rfl
  | true =>
    -- c < a; compare b with c
    cases hbc : optLt b c with
    | true => have := optLt_trans hbc hca; simp [this] at h1
    | false =>
      have : b = c := optLt_trichotomy b c hbc h2
      subst this; simp [hca] at h1

/-! ### a generic lexicographic "≤" built from a strict order -/

theorem str_trichotomy (a b : String) (h1 : ¬ a < b) (h2 : ¬ b < a) : a = b :=
  String.le_antisymm (String.not_lt.mp h2) (String.not_lt.mp h1)

theorem hdrLe_total (a b : Header) : hdrLe a b = true ∨ hdrLe b a = true := by
  unfold hdrLe
  simp only
  by_cases h1 : (hdrKey a).1 < (hdrKey b).1
  · simp [h1]
  · by_cases h2 : (hdrKey b).1 < (hdrKey a).1
    · right; simp [h2]
    · simp only [h1, h2, if_false]
      cases h3 : optLt (hdrKey a).2.1 (hdrKey b).2.1
      · cases h4 : optLt (hdrKey b).2.1 (hdrKey a).2.1
        · simp only [Bool.false_eq_true, if_false]
          cases h5 : optLt (hdrKey a).2.2.1 (hdrKey b).2.2.1
          · cases h6 : optLt (hdrKey b).2.2.1 (hdrKey a).2.2.1
            · simp only [Bool.false_eq_true, if_false]
              by_cases h7 : (hdrKey b).2.2.2 < (hdrKey a).2.2.2
              · right; simp [String.lt_asymm h7]
              · left; simp [h7]
            · right; simp
          · left; simp
        · right; simp
      · left; simp

/-- equal in the order ⇒ equal keys -/
theorem hdrLe_antisymm (a b : Header) (h1 : hdrLe a b = true) (h2 : hdrLe b a = true) : hdrKey a = hdrKey b := by
  unfold hdrLe at h1 h2
  simp only at h1 h2
  have e1 : (hdrKey a).1 = (hdrKey b).1 := by
    by_cases x : (hdrKey a).1 < (hdrKey b).1
    · have y : ¬ (hdrKey b).1 < (hdrKey a).1 := by omega
      simp [x, y] at h2
    · by_cases y : (hdrKey b).1 < (hdrKey a).1
      · simp [x, y] at h1
      · omega
  have n1 : ¬ (hdrKey a).1 < (hdrKey b).1 := by omega
  have n2 : ¬ (hdrKey b).1 < (hdrKey a).1 := by omega
  simp only [n1, n2, if_false] at h1 h2
  have e2 : (hdrKey a).2.1 = (hdrKey b).2.1 := by
    cases x : optLt (hdrKey a).2.1 (hdrKey b).2.1
    · cases y : optLt (hdrKey b).2.1 (hdrKey a).2.1
      · exact optLt_trichotomy _ _ x y
      · simp [x, y] at h1
    · have y := optLt_asymm x
      simp [x, y] at h2
  rw [e2] at h1 h2
  simp only [optLt_irrefl, Bool.false_eq_true, if_false] at h1 h2
  have e3 : (hdrKey a).2.2.1 = (hdrKey b).2.2.1 := by
    cases x : optLt (hdrKey a).2.2.1 (hdrKey b).2.2.1
    · cases y : optLt (hdrKey b).2.2.1 (hdrKey a).2.2.1
      · exact optLt_trichotomy _ _ x y
      · simp [x, y] at h1
    · have y := optLt_asymm x
      simp [x, y] at h2
  rw [e3] at h1 h2
  simp only [optLt_irrefl, Bool.false_eq_true, if_false] at h1 h2
  have e4 : (hdrKey a).2.2.2 = (hdrKey b).2.2.2 := by
    simp at h1 h2
    exact str_trichotomy _ _ h2 h1
  exact Prod.ext e1 (Prod.ext e2 (Prod.ext e3 e4))

theorem hdrLe_refl (a : Header) : hdrLe a a = true := by
  rcases hdrLe_total a a with h | h <;> exact h

/-- the strict part, as a 4-level lexicographic comparison, for the transitivity proof -/
def hdrLt (a b : Header) : Bool := !hdrLe b a

/-- strict linear order, as Boolean relation -/
structure StrictLin {α} (lt : α → α → Bool) : Prop where
  trans : ∀ {a b c}, lt a b = true → lt b c = true → lt a c = true
  asymm : ∀ {a b}, lt a b = true → lt b a = false
  tri : ∀ a b, lt a b = false → lt b a = false → a = b

/-- one level of a lexicographic "≤" -/
def lexLe {α β} (lt : α → α → Bool) (le : β → β → Bool) (a : α × β) (b : α × β) : Bool :=
  if lt a.1 b.1 then true else if lt b.1 a.1 then false else le a.2 b.2

theorem lexLe_trans {α β} {lt : α → α → Bool} {le : β → β → Bool} (hl : StrictLin lt)
    (ht : ∀ {x y z}, le x y = true → le y z = true → le x z = true)
    {a b c : α × β} (h1 : lexLe lt le a b = true) (h2 : lexLe lt le b c = true) : lexLe lt le a c = true := by
  unfold lexLe at *
  cases x : lt a.1 b.1
  · cases x' : lt b.1 a.1
    · have eab := hl.tri _ _ x x'
      simp only [x, x', Bool.false_eq_true, if_false] at h1
      rw [eab]
      cases y : lt b.1 c.1
      · cases y' : lt c.1 b.1
        · simp only [y, y', Bool.false_eq_true, if_false] at h2 ⊢
          exact ht h1 h2
        · simp [y, y'] at h2
      · simp
    · simp [x, x'] at h1
  · cases y : lt b.1 c.1
    · cases y' : lt c.1 b.1
      · have ebc := hl.tri _ _ y y'
        rw [← ebc]; simp [x]
      · simp [y, y'] at h2
    · simp [hl.trans x y]

def intLt (a b : Int) : Bool := decide (a < b)
def strLe (a b : String) : Bool := !decide (b < a)

theorem intLt_lin : StrictLin intLt where
  trans := by intro a b c h1 h2; simp [intLt] at *; omega
  asymm := by intro a b h; simp [intLt] at *; omega
  tri := by intro a b h1 h2; simp [intLt] at *; omega

theorem optLt_lin : StrictLin optLt where
  trans := optLt_trans
  asymm := optLt_asymm
  tri := optLt_trichotomy

theorem strLe_trans {x y z : String} (h1 : strLe x y = true) (h2 : strLe y z = true) : strLe x z = true := by
  simp [strLe] at *
  exact String.not_lt.mpr (String.le_trans (String.not_lt.mp h1) (String.not_lt.mp h2))

theorem hdrLe_eq_lex (a b : Header) :
    hdrLe a b = lexLe intLt (lexLe optLt (lexLe optLt strLe)) (hdrKey a) (hdrKey b) := by
  simp [hdrLe, lexLe, intLt, strLe]

theorem hdrLe_trans {a b c : Header} (h1 : hdrLe a b = true) (h2 : hdrLe b c = true) : hdrLe a c = true := by
  rw [hdrLe_eq_lex] at *
  have t3 : ∀ {x y z : Option String × String}, lexLe optLt strLe x y = true → lexLe optLt strLe y z = true →
      lexLe optLt strLe x z = true := fun h1 h2 => lexLe_trans optLt_lin (@strLe_trans) h1 h2
  have t2 : ∀ {x y z : Option String × Option String × String},
      lexLe optLt (lexLe optLt strLe) x y = true → lexLe optLt (lexLe optLt strLe) y z = true →
      lexLe optLt (lexLe optLt strLe) x z = true := fun h1 h2 => lexLe_trans optLt_lin (@t3) h1 h2
  exact lexLe_trans intLt_lin (@t2) h1 h2

/-! ### sorted lists are unique up to permutation -/

theorem sorted_perm_eq {α} (le : α → α → Prop) :
    ∀ (l₁ l₂ : List α), l₁.Perm l₂ → l₁.Pairwise le → l₂.Pairwise le →
      (∀ a b, a ∈ l₁ → b ∈ l₁ → le a b → le b a → a = b) → l₁ = l₂ := by
  intro l₁
  induction l₁ with
  | nil => intro l₂ p _ _ _; exact (List.Perm.nil_eq p)
  | cons a t ih =>
    intro l₂ p s1 s2 anti
    cases l₂ with
    | nil => exact absurd p.symm (by simp)
    | cons b u =>
      have ha : a ∈ b :: u := p.subset (List.mem_cons_self)
      have hb : b ∈ a :: t := p.symm.subset (List.mem_cons_self)
      have hab : a = b := by
        rcases List.mem_cons.mp ha with h | h
        · exact h
        · rcases List.mem_cons.mp hb with h' | h'
          · exact h'.symm
          · exact anti a b List.mem_cons_self (List.mem_cons_of_mem _ h')
              ((List.pairwise_cons.mp s1).1 b h') ((List.pairwise_cons.mp s2).1 a h)
      subst hab
      congr 1
      exact ih u (List.Perm.cons_inv p) (List.pairwise_cons.mp s1).2 (List.pairwise_cons.mp s2).2
        (fun x y hx hy => anti x y (List.mem_cons_of_mem _ hx) (List.mem_cons_of_mem _ hy))

theorem sortTxns_perm (ts : List Txn) : (sortTxns ts).Perm ts := List.mergeSort_perm _ _

theorem sortTxns_sorted (ts : List Txn) : (sortTxns ts).Pairwise (fun a b => txnLe a b = true) := by
  unfold sortTxns
  apply List.pairwise_mergeSort
  · intro a b c h1 h2; exact hdrLe_trans h1 h2
  · intro a b
    rcases hdrLe_total a.header b.header with h | h
    · simp [txnLe, h]
    · simp [txnLe, h]

/-- **load order is a function of the set**: two arrangements of the same transactions load to the
    same list when transactions are pairwise distinguishable by their header key -/
theorem sort_unique (xs ys : List Txn) (hp : xs.Perm ys)
    (hd : ∀ a b, a ∈ xs → b ∈ xs → hdrKey a.header = hdrKey b.header → a = b) :
    sortTxns xs = sortTxns ys := by
  apply sorted_perm_eq (fun a b => txnLe a b = true)
  · exact (sortTxns_perm xs).trans (hp.trans (sortTxns_perm ys).symm)
  · exact sortTxns_sorted xs
  · exact sortTxns_sorted ys
  · intro a b ha hb h1 h2
    have ha' := (sortTxns_perm xs).subset ha
    have hb' := (sortTxns_perm xs).subset hb
    exact hd a b ha' hb' (hdrLe_antisymm _ _ h1 h2)

end Tackler

import TacklerModel.Model.Order
/-! Order lemmas: `hdrLe` is a total preorder whose equivalence is equality of the header key;
    sorted lists are unique up to permutation. -/
namespace Tackler

/-- strict linear order, as Boolean relation -/
structure StrictLin {α} (lt : α → α → Bool) : Prop where
  trans : ∀ {a b c}, lt a b = true → lt b c = true → lt a c = true
  asymm : ∀ {a b}, lt a b = true → lt b a = false
  tri : ∀ a b, lt a b = false → lt b a = false → a = b

/-- one level of a lexicographic "≤" -/
def lexLe {α β} (lt : α → α → Bool) (le : β → β → Bool) (a : α × β) (b : α × β) : Bool :=
  if lt a.1 b.1 then true else if lt b.1 a.1 then false else le a.2 b.2

theorem lexLe_trans {α β} {lt : α → α → Bool} {le : β → β → Bool} (hl : StrictLin lt)
    (ht : ∀ {x y z}, le x y = true → le y z = true → le x z = true)
    {a b c : α × β} (h1 : lexLe lt le a b = true) (h2 : lexLe lt le b c = true) : lexLe lt le a c = true := by
  unfold lexLe at *
  cases x : lt a.1 b.1
  · cases x' : lt b.1 a.1
    · have eab := hl.tri _ _ x x'
      simp only [x, x', Bool.false_eq_true, if_false] at h1
      rw [eab]
      cases y : lt b.1 c.1
      · cases y' : lt c.1 b.1
        · simp only [y, y', Bool.false_eq_true, if_false] at h2 ⊢
          exact ht h1 h2
        · simp [y, y'] at h2
      · simp
    · simp [x, x'] at h1
  · cases y : lt b.1 c.1
    · cases y' : lt c.1 b.1
      · have ebc := hl.tri _ _ y y'
        rw [← ebc]; simp [x]
      · simp [y, y'] at h2
    · simp [hl.trans x y]

theorem lexLe_total {α β} {lt : α → α → Bool} {le : β → β → Bool} (hl : StrictLin lt)
    (ht : ∀ x y, le x y = true ∨ le y x = true) (a b : α × β) :
    lexLe lt le a b = true ∨ lexLe lt le b a = true := by
  unfold lexLe
  cases x : lt a.1 b.1
  · cases x' : lt b.1 a.1
    · simpa using ht a.2 b.2
    · simp
  · simp

theorem lexLe_antisymm {α β} {lt : α → α → Bool} {le : β → β → Bool} (hl : StrictLin lt)
    (ha : ∀ x y, le x y = true → le y x = true → x = y) (a b : α × β)
    (h1 : lexLe lt le a b = true) (h2 : lexLe lt le b a = true) : a = b := by
  unfold lexLe at *
  cases x : lt a.1 b.1
  · cases x' : lt b.1 a.1
    · simp only [x, x', Bool.false_eq_true, if_false] at h1 h2
      exact Prod.ext (hl.tri _ _ x x') (ha _ _ h1 h2)
    · simp [x, x'] at h1
  · have := hl.asymm x
    simp [x, this] at h2

def intLt (a b : Int) : Bool := decide (a < b)
def strLt (a b : String) : Bool := decide (a < b)
def boolLe (a b : Bool) : Bool := !(boolLt b a)

theorem intLt_lin : StrictLin intLt where
  trans := by intro a b c h1 h2; simp [intLt] at *; omega
  asymm := by intro a b h; simp [intLt] at *; omega
  tri := by intro a b h1 h2; simp [intLt] at *; omega

theorem strLt_lin : StrictLin strLt where
  trans := by intro a b c h1 h2; simp [strLt] at *; exact String.lt_trans h1 h2
  asymm := by intro a b h; simp [strLt] at *; exact String.lt_asymm h
  tri := by
    intro a b h1 h2; simp [strLt] at *
    exact String.le_antisymm (String.not_lt.mp h2) (String.not_lt.mp h1)

theorem boolLt_lin : StrictLin boolLt where
  trans := by intro a b c; cases a <;> cases b <;> cases c <;> simp [boolLt]
  asymm := by intro a b; cases a <;> cases b <;> simp [boolLt]
  tri := by intro a b; cases a <;> cases b <;> simp [boolLt]

theorem boolLe_trans {x y z : Bool} (h1 : boolLe x y = true) (h2 : boolLe y z = true) : boolLe x z = true := by
  cases x <;> cases y <;> cases z <;> simp_all [boolLe, boolLt]
theorem boolLe_total (x y : Bool) : boolLe x y = true ∨ boolLe y x = true := by
  cases x <;> cases y <;> simp [boolLe, boolLt]
theorem boolLe_antisymm (x y : Bool) (h1 : boolLe x y = true) (h2 : boolLe y x = true) : x = y := by
  cases x <;> cases y <;> simp_all [boolLe, boolLt]

/-- the five nested levels below the instant -/
abbrev L5 := lexLe boolLt boolLe
abbrev L4 := lexLe strLt L5
abbrev L3 := lexLe strLt L4
abbrev L2 := lexLe strLt L3
abbrev L1 := lexLe intLt L2

theorem hdrLe_eq_lex (a b : Header) : hdrLe a b = L1 (hdrKey a) (hdrKey b) := by
  simp [hdrLe, L1, L2, L3, L4, L5, lexLe, intLt, strLt, boolLe]

theorem L5_trans {x y z : Bool × Bool} (h1 : L5 x y = true) (h2 : L5 y z = true) : L5 x z = true :=
  lexLe_trans boolLt_lin (@boolLe_trans) h1 h2
theorem L4_trans {x y z : String × Bool × Bool} (h1 : L4 x y = true) (h2 : L4 y z = true) : L4 x z = true :=
  lexLe_trans strLt_lin (@L5_trans) h1 h2
theorem L3_trans {x y z : String × String × Bool × Bool} (h1 : L3 x y = true) (h2 : L3 y z = true) : L3 x z = true :=
  lexLe_trans strLt_lin (@L4_trans) h1 h2
theorem L2_trans {x y z : String × String × String × Bool × Bool} (h1 : L2 x y = true) (h2 : L2 y z = true) :
    L2 x z = true := lexLe_trans strLt_lin (@L3_trans) h1 h2

theorem hdrLe_trans {a b c : Header} (h1 : hdrLe a b = true) (h2 : hdrLe b c = true) : hdrLe a c = true := by
  rw [hdrLe_eq_lex] at *
  exact lexLe_trans intLt_lin (@L2_trans) h1 h2

theorem hdrLe_total (a b : Header) : hdrLe a b = true ∨ hdrLe b a = true := by
  rw [hdrLe_eq_lex, hdrLe_eq_lex]
  exact lexLe_total intLt_lin (lexLe_total strLt_lin (lexLe_total strLt_lin (lexLe_total strLt_lin
    (lexLe_total boolLt_lin boolLe_total)))) _ _

/-- equal in the order ⇒ equal keys -/
theorem hdrLe_antisymm (a b : Header) (h1 : hdrLe a b = true) (h2 : hdrLe b a = true) : hdrKey a = hdrKey b := by
  rw [hdrLe_eq_lex] at *
  exact lexLe_antisymm intLt_lin (lexLe_antisymm strLt_lin (lexLe_antisymm strLt_lin (lexLe_antisymm strLt_lin
    (lexLe_antisymm boolLt_lin boolLe_antisymm)))) _ _ h1 h2

theorem hdrLe_refl (a : Header) : hdrLe a a = true := by
  rcases hdrLe_total a a with h | h <;> exact h

theorem optStr_isSome_inj (a b : Option String) (h1 : optStr a = optStr b) (h2 : a.isSome = b.isSome) : a = b := by
  cases a <;> cases b <;> simp_all [optStr]

/-- the key determines instant, code, description and uuid text: "distinguishable" = different key -/
theorem hdrKey_eq_iff (a b : Header) :
    hdrKey a = hdrKey b ↔ a.ts.ns = b.ts.ns ∧ a.code = b.code ∧ a.desc = b.desc ∧ optStr a.uuid = optStr b.uuid := by
  unfold hdrKey
  constructor
  · intro h
    simp only [Prod.mk.injEq] at h
    obtain ⟨h1, h2, h3, h4, h5, h6⟩ := h
    exact ⟨h1, optStr_isSome_inj _ _ h2 h5, optStr_isSome_inj _ _ h3 h6, h4⟩
  · rintro ⟨h1, h2, h3, h4⟩
    simp [h1, h2, h3, h4]

/-! ### sorted lists are unique up to permutation -/

theorem sorted_perm_eq {α} (le : α → α → Prop) :
    ∀ (l₁ l₂ : List α), l₁.Perm l₂ → l₁.Pairwise le → l₂.Pairwise le →
      (∀ a b, a ∈ l₁ → b ∈ l₁ → le a b → le b a → a = b) → l₁ = l₂ := by
  intro l₁
  induction l₁ with
  | nil => intro l₂ p _ _ _; exact (List.Perm.nil_eq p)
  | cons a t ih =>
    intro l₂ p s1 s2 anti
    cases l₂ with
    | nil => exact absurd p.symm (by simp)
    | cons b u =>
      have ha : a ∈ b :: u := p.subset (List.mem_cons_self)
      have hb : b ∈ a :: t := p.symm.subset (List.mem_cons_self)
      have hab : a = b := by
        rcases List.mem_cons.mp ha with h | h
        · exact h
        · rcases List.mem_cons.mp hb with h' | h'
          · exact h'.symm
          · exact anti a b List.mem_cons_self (List.mem_cons_of_mem _ h')
              ((List.pairwise_cons.mp s1).1 b h') ((List.pairwise_cons.mp s2).1 a h)
      subst hab
      congr 1
      exact ih u (List.Perm.cons_inv p) (List.pairwise_cons.mp s1).2 (List.pairwise_cons.mp s2).2
        (fun x y hx hy => anti x y (List.mem_cons_of_mem _ hx) (List.mem_cons_of_mem _ hy))

theorem sortTxns_perm (ts : List Txn) : (sortTxns ts).Perm ts := List.mergeSort_perm _ _

theorem sortTxns_sorted (ts : List Txn) : (sortTxns ts).Pairwise (fun a b => txnLe a b = true) := by
  unfold sortTxns
  apply List.pairwise_mergeSort
  · intro a b c h1 h2; exact hdrLe_trans h1 h2
  · intro a b
    rcases hdrLe_total a.header b.header with h | h
    · simp [txnLe, h]
    · simp [txnLe, h]

/-- **load order is a function of the set**: two arrangements of the same transactions load to the
    same list when transactions are pairwise distinguishable by their header key -/
theorem sort_unique (xs ys : List Txn) (hp : xs.Perm ys)
    (hd : ∀ a b, a ∈ xs → b ∈ xs → hdrKey a.header = hdrKey b.header → a = b) :
    sortTxns xs = sortTxns ys := by
  apply sorted_perm_eq (fun a b => txnLe a b = true)
  · exact (sortTxns_perm xs).trans (hp.trans (sortTxns_perm ys).symm)
  · exact sortTxns_sorted xs
  · exact sortTxns_sorted ys
  · intro a b ha hb h1 h2
    have ha' := (sortTxns_perm xs).subset ha
    have hb' := (sortTxns_perm xs).subset hb
    exact hd a b ha' hb' (hdrLe_antisymm _ _ h1 h2)

end Tackler

import TacklerModel.Lemmas.Dec
import TacklerModel.Lemmas.ListSum
import TacklerModel.Lemmas.KeyOrder
import TacklerModel.Lemmas.ChunkBy
/-! Spec A of C02: `accountSums` (stable sort by account key, `chunk_by`, sum per chunk) yields one entry per
    posted (commodity, account) pair, strictly sorted by `keyLt`, carrying the exact sum of that pair's postings. -/
namespace Tackler
namespace C02

open KeyOrder ListSum ChunkBy

/-- representation invariants of the posting stream: stored scales ≤ 28, non-empty account paths, and account
    names determine paths among all prefixes of posted paths (`NamesInj`) -/
structure PostsWF (posts : List BPost) : Prop where
  scale : ∀ p ∈ posts, p.amount.scale ≤ 28
  nonempty : ∀ p ∈ posts, p.acct ≠ []
  namesInj : ∀ p q : Path, (∃ x ∈ posts, p <+: x.acct) → (∃ y ∈ posts, q <+: y.acct) →
    acctName p = acctName q → p = q

/-- `NamesInj` follows from the lexical shape of account components -/
theorem namesInj_of_good (posts : List BPost) (h : ∀ x ∈ posts, GoodPath x.acct) :
    ∀ p q : Path, (∃ x ∈ posts, p <+: x.acct) → (∃ y ∈ posts, q <+: y.acct) →
      acctName p = acctName q → p = q := by
  intro p q ⟨x, hx, hpx⟩ ⟨y, hy, hqy⟩ hn
  exact acctName_inj p q (goodPath_prefix (h x hx) hpx) (goodPath_prefix (h y hy) hqy) hn

/-- the keys the balance talks about: a posted (commodity, account) pair or one of its ancestors -/
def InPlay (posts : List BPost) (k : AKey) : Prop :=
  ∃ x ∈ posts, k.1 = x.comm ∧ k.2 ≠ [] ∧ k.2 <+: x.acct

/-- on keys in play equal name keys are equal keys -/
theorem key_eq_of_nk (posts : List BPost) (hwf : PostsWF posts) (a b : AKey)
    (ha : ∃ x ∈ posts, a.2 <+: x.acct) (hb : ∃ y ∈ posts, b.2 <+: y.acct) (h : nk a = nk b) : a = b := by
  simp only [nk, Prod.mk.injEq] at h
  have := hwf.namesInj a.2 b.2 ha hb h.2
  exact Prod.ext h.1 this

structure AccSpec (posts : List BPost) (sums : List (AKey × Dec)) : Prop where
  sorted : (sums.map (·.1)).Pairwise (fun a b => keyLt a b = true)
  keys : ∀ k, k ∈ sums.map (·.1) ↔ ∃ p ∈ posts, p.key = k
  sum : ∀ x ∈ sums, x.2.units = ((posts.filter (fun p => decide (p.key = x.1))).map (·.amount.units)).sum ∧
          x.2.scale ≤ 28

theorem sumGroups_spec : ∀ (cs : List (AKey × List BPost)) (r : List (AKey × Dec)), sumGroups cs = some r →
    r.map (·.1) = cs.map (·.1) ∧
    ∀ x ∈ r, ∃ g, (x.1, g) ∈ cs ∧ Dec.sum (g.map (·.amount)) = some x.2 := by
  intro cs
  induction cs with
  | nil => intro r h; simp [sumGroups] at h; subst h; simp
  | cons c rest ih =>
    intro r h
    obtain ⟨k, g⟩ := c
    simp only [sumGroups] at h
    split at h
    · cases h
    · rename_i s hs
      split at h
      · cases h
      · rename_i r' hr'
        cases h
        obtain ⟨ih1, ih2⟩ := ih r' hr'
        refine ⟨by simp [ih1], ?_⟩
        intro x hx
        rcases List.mem_cons.mp hx with rfl | hx'
        · exact ⟨g, List.mem_cons_self, hs⟩
        · obtain ⟨g', hg', hs'⟩ := ih2 x hx'
          exact ⟨g', List.mem_cons_of_mem _ hg', hs'⟩

theorem accountSums_spec (posts : List BPost) (hwf : PostsWF posts) (sums : List (AKey × Dec))
    (h : accountSums posts = some sums) : AccSpec posts sums := by
  unfold accountSums at h
  generalize hs : posts.mergeSort (fun a b => keyLe a.key b.key) = sorted at h
  have hperm : sorted.Perm posts := by rw [← hs]; exact List.mergeSort_perm _ _
  have hpw : sorted.Pairwise (fun a b => keyLe a.key b.key = true) := by
    rw [← hs]
    exact List.pairwise_mergeSort (le := fun a b : BPost => keyLe a.key b.key)
      (fun a b c => keyLe_trans a.key b.key c.key) (fun a b => keyLe_total a.key b.key) posts
  have hmem : ∀ a, a ∈ sorted ↔ a ∈ posts := fun a => hperm.mem_iff
  have hpw' : sorted.Pairwise (fun a b => a.key = b.key ∨ keyLt a.key b.key = true) := by
    apply List.Pairwise.imp_of_mem _ hpw
    intro a b ha hb hle
    by_cases hnk : nk a.key = nk b.key
    · left
      exact key_eq_of_nk posts hwf a.key b.key ⟨a, (hmem a).mp ha, List.prefix_refl _⟩
        ⟨b, (hmem b).mp hb, List.prefix_refl _⟩ hnk
    · right; exact keyLt_of_le_of_ne _ _ hle hnk
  have hstrict := chunkBy_strict BPost.key (fun a b => keyLt a b = true) keyLt_trans sorted hpw'
  obtain ⟨hk1, hk2⟩ := sumGroups_spec _ _ h
  have hnd : ((chunkBy BPost.key sorted).map (·.1)).Nodup := nodup_of_pairwise_keyLt _ hstrict
  refine ⟨by rw [hk1]; exact hstrict, ?_, ?_⟩
  · intro k
    rw [hk1]
    constructor
    · intro hk
      obtain ⟨kg, hkg, rfl⟩ := List.mem_map.mp hk
      obtain ⟨a, ha, hak⟩ := chunk_key_mem BPost.key sorted kg hkg
      exact ⟨a, (hmem a).mp ha, hak⟩
    · intro ⟨p, hp, hpk⟩
      obtain ⟨g, hg, _⟩ := mem_chunk BPost.key sorted p ((hmem p).mpr hp)
      exact List.mem_map.mpr ⟨(p.key, g), hg, hpk⟩
  · intro x hx
    obtain ⟨g, hg, hsum⟩ := hk2 x hx
    have hgf := chunk_eq_filter BPost.key sorted hnd (x.1, g) hg
    simp only at hgf
    have hsc : ∀ d ∈ g.map (·.amount), d.scale ≤ 28 := by
      intro d hd
      obtain ⟨p, hp, rfl⟩ := List.mem_map.mp hd
      exact hwf.scale p ((hmem p).mp (chunk_subset BPost.key sorted (x.1, g) hg p hp))
    obtain ⟨hu, hsc'⟩ := Dec.sum_units _ _ hsc hsum
    refine ⟨?_, hsc'⟩
    rw [hu, List.map_map, hgf]
    exact perm_sum_map _ (hperm.filter _)

end C02
end Tackler

import TacklerModel.Model.Register
import TacklerModel.Lemmas.Dec
/-! Lemmas about the register engine (`Model/Register.lean`): the account-key order is a total preorder,
    sums per key, the invariant of the running-total map, and "the in-entry sort is the identity". -/
namespace Tackler
namespace Reg

/-! ### `keyLe` (`Ord for TxnAccount`) is total and transitive -/

theorem keyLe_iff (a b : AKey) :
    keyLe a b = true ↔ a.1 < b.1 ∨ (a.1 = b.1 ∧ acctName a.2 ≤ acctName b.2) := by
  simp [keyLe]

theorem keyLe_total (a b : AKey) : (keyLe a b || keyLe b a) = true := by
  rw [Bool.or_eq_true, keyLe_iff, keyLe_iff]
  by_cases h1 : a.1 < b.1
  · left; left; exact h1
  · by_cases h2 : b.1 < a.1
    · right; left; exact h2
    · have e : a.1 = b.1 := String.le_antisymm (String.not_lt.mp h2) (String.not_lt.mp h1)
      rcases String.le_total (acctName a.2) (acctName b.2) with h | h
      · left; right; exact ⟨e, h⟩
      · right; right; exact ⟨e.symm, h⟩

theorem keyLe_trans (a b c : AKey) (h1 : keyLe a b = true) (h2 : keyLe b c = true) : keyLe a c = true := by
  rw [keyLe_iff] at *
  rcases h1 with h1 | ⟨e1, l1⟩ <;> rcases h2 with h2 | ⟨e2, l2⟩
  · left; exact String.lt_trans h1 h2
  · left; rw [← e2]; exact h1
  · left; rw [e1]; exact h2
  · right; exact ⟨e1.trans e2, String.le_trans l1 l2⟩

theorem itemLe_total (a b : RItem) : (itemLe a b || itemLe b a) = true := keyLe_total _ _
theorem itemLe_trans (a b c : RItem) (h1 : itemLe a b = true) (h2 : itemLe b c = true) : itemLe a c = true :=
  keyLe_trans _ _ _ h1 h2

/-- the items of one transaction in the order the engine accumulates them -/
def sortItems (items : List RItem) : List RItem := items.mergeSort itemLe

theorem sortItems_perm (items : List RItem) : (sortItems items).Perm items := List.mergeSort_perm _ _

theorem sortItems_sorted (items : List RItem) : (sortItems items).Pairwise (fun a b => itemLe a b = true) :=
  List.pairwise_mergeSort itemLe_trans itemLe_total items

/-! ### integer sums -/

theorem sum_perm {l₁ l₂ : List Int} (h : l₁.Perm l₂) : l₁.sum = l₂.sum := by
  induction h with
  | nil => rfl
  | cons x _ ih => simp [ih]
  | swap x y l => simp; omega
  | trans _ _ ih1 ih2 => exact ih1.trans ih2

/-- Σ of the amounts accumulated under key `k` -/
def keySum (k : AKey) (items : List RItem) : Int :=
  ((items.filter (fun it => decide (it.key = k))).map (fun it => it.amount.units)).sum

@[simp] theorem keySum_nil (k : AKey) : keySum k [] = 0 := rfl

theorem keySum_cons (k : AKey) (it : RItem) (l : List RItem) :
    keySum k (it :: l) = (if it.key = k then it.amount.units else 0) + keySum k l := by
  unfold keySum
  by_cases h : it.key = k <;> simp [h]

theorem keySum_append (k : AKey) (l₁ l₂ : List RItem) : keySum k (l₁ ++ l₂) = keySum k l₁ + keySum k l₂ := by
  induction l₁ with
  | nil => simp
  | cons a t ih => simp only [List.cons_append, keySum_cons, ih]; omega

theorem keySum_perm (k : AKey) {l₁ l₂ : List RItem} (h : l₁.Perm l₂) : keySum k l₁ = keySum k l₂ := by
  unfold keySum
  exact sum_perm ((h.filter _).map _)

theorem keySum_sortItems (k : AKey) (items : List RItem) : keySum k (sortItems items) = keySum k items :=
  keySum_perm k (sortItems_perm items)

/-! ### the running-total map -/

/-- what the map holds after the items `items` have been accumulated -/
def MapInv (m : RegMap) (items : List RItem) : Prop :=
  (∀ k v, m k = some v → v.units = keySum k items ∧ v.scale ≤ 28) ∧ (∀ k, m k = none → keySum k items = 0)

theorem mapInv_empty : MapInv RegMap.empty [] := by
  constructor
  · intro k v h; cases h
  · intro k _; rfl

/-- a row is the row of an item -/
def RowOf (it : RItem) (r : RegRow) : Prop := r.post = it.post ∧ r.comm = it.comm ∧ r.rate = it.rate

theorem accPosting_row (m m' : RegMap) (it : RItem) (r : RegRow) (h : accPosting m it = some (m', r)) :
    RowOf it r ∧ m' = m.set it.key r.total := by
  unfold accPosting at h
  split at h
  · cases h; exact ⟨⟨rfl, rfl, rfl⟩, rfl⟩
  · split at h
    · cases h
    · cases h; exact ⟨⟨rfl, rfl, rfl⟩, rfl⟩

theorem accPosting_spec (m m' : RegMap) (prev : List RItem) (it : RItem) (r : RegRow)
    (hinv : MapInv m prev) (hs : it.amount.scale ≤ 28) (h : accPosting m it = some (m', r)) :
    MapInv m' (prev ++ [it]) ∧ r.total.units = keySum it.key (prev ++ [it]) := by
  have hk : ∀ k, keySum k (prev ++ [it]) = keySum k prev + (if it.key = k then it.amount.units else 0) := by
    intro k; rw [keySum_append, keySum_cons]; simp
  have key : r.total.units = keySum it.key (prev ++ [it]) ∧ r.total.scale ≤ 28 ∧ m' = m.set it.key r.total := by
    unfold accPosting at h
    split at h
    · rename_i hn
      cases h
      refine ⟨?_, hs, rfl⟩
      rw [hk, hinv.2 _ hn]; simp
    · rename_i v hv
      split at h
      · cases h
      · rename_i s hadd
        cases h
        have hv' := hinv.1 _ _ hv
        have ha := Dec.add_units v it.amount s hv'.2 hs hadd
        refine ⟨?_, ha.2, rfl⟩
        rw [hk, ha.1, hv'.1]; simp
  obtain ⟨h1, h2, h3⟩ := key
  refine ⟨?_, h1⟩
  subst h3
  constructor
  · intro k v hv
    unfold RegMap.set at hv
    split at hv
    · rename_i hkk
      cases hv; subst hkk; exact ⟨h1, h2⟩
    · rename_i hkk
      have := hinv.1 k v hv
      rw [hk]
      have hne : ¬ it.key = k := fun e => hkk e.symm
      simp [hne, this.1, this.2]
  · intro k hv
    unfold RegMap.set at hv
    split at hv
    · cases hv
    · rename_i hkk
      have hne : ¬ it.key = k := fun e => hkk e.symm
      rw [hk, hinv.2 k hv]; simp [hne]

theorem accPostings_posts : ∀ (l : List RItem) (m m' : RegMap) (rows : List RegRow),
    accPostings m l = some (m', rows) → rows.map (·.post) = l.map (·.post) := by
  intro l
  induction l with
  | nil => intro m m' rows h; simp [accPostings] at h; simp [h.2.symm]
  | cons it rest ih =>
    intro m m' rows h
    simp only [accPostings] at h
    split at h
    · cases h
    · rename_i m1 r h1
      split at h
      · cases h
      · rename_i m2 rs h2
        cases h
        have := (accPosting_row _ _ _ _ h1).1.1
        simp [this, ih _ _ _ h2]

/-- every row of a transaction shows the sum of everything accumulated before it and up to itself -/
theorem accPostings_spec : ∀ (l : List RItem) (m m' : RegMap) (prev : List RItem) (rows : List RegRow),
    MapInv m prev → (∀ it ∈ l, it.amount.scale ≤ 28) → accPostings m l = some (m', rows) →
    MapInv m' (prev ++ l) ∧ rows.length = l.length ∧
    ∀ j r, rows[j]? = some r → ∃ it, l[j]? = some it ∧ RowOf it r ∧
      r.total.units = keySum it.key (prev ++ l.take (j + 1)) := by
  intro l
  induction l with
  | nil =>
    intro m m' prev rows hinv _ h
    simp [accPostings] at h
    obtain ⟨rfl, rfl⟩ := h
    simp [hinv]
  | cons it rest ih =>
    intro m m' prev rows hinv hs h
    simp only [accPostings] at h
    split at h
    · cases h
    · rename_i m1 r h1
      split at h
      · cases h
      · rename_i m2 rs h2
        cases h
        have s1 := accPosting_spec m m1 prev it r hinv (hs it List.mem_cons_self) h1
        have r1 := (accPosting_row _ _ _ _ h1).1
        have s2 := ih m1 m' (prev ++ [it]) rs s1.1 (fun x hx => hs x (List.mem_cons_of_mem _ hx)) h2
        refine ⟨by simpa [List.append_assoc] using s2.1, by simp [s2.2.1], ?_⟩
        intro j r' hj
        cases j with
        | zero =>
          simp at hj; subst hj
          exact ⟨it, by simp, r1, by simpa using s1.2⟩
        | succ j =>
          simp at hj
          obtain ⟨it', hit', hr', ht'⟩ := s2.2.2 j r' hj
          exact ⟨it', by simpa using hit', hr', by simpa [List.append_assoc] using ht'⟩

/-! ### the in-entry `sort()` does nothing: the rows are already in account-key order -/

theorem rowLe_total (a b : RegRow) : (rowLe a b || rowLe b a) = true := keyLe_total _ _
theorem rowLe_trans (a b c : RegRow) (h1 : rowLe a b = true) (h2 : rowLe b c = true) : rowLe a c = true :=
  keyLe_trans _ _ _ h1 h2

theorem rows_sorted (l : List RItem) (m m' : RegMap) (rows : List RegRow)
    (hl : l.Pairwise (fun a b => itemLe a b = true)) (h : accPostings m l = some (m', rows)) :
    rows.Pairwise (fun a b => rowLe a b = true) := by
  have hp := accPostings_posts l m m' rows h
  have h1 : (l.map (·.post)).Pairwise (fun p q => keyLe p.acctnKey q.acctnKey = true) := by
    rw [List.pairwise_map]; exact hl
  rw [← hp, List.pairwise_map] at h1
  exact h1

/-- body of the loop, with both sorts resolved -/
theorem registerTxn_eq (sel : RegRow → Bool) (m : RegMap) (t : Txn) (items : List RItem) :
    registerTxn sel m t items =
      (accPostings m (sortItems items)).map (fun x => (x.1, ⟨t, x.2.filter sel⟩)) := by
  unfold registerTxn sortItems
  split
  · rename_i h; simp [h]
  · rename_i m' rows h
    simp only [h, Option.map_some]
    have hs := rows_sorted _ m m' rows (sortItems_sorted items) h
    rw [List.mergeSort_of_pairwise (hs.sublist List.filter_sublist)]

end Reg
end Tackler

import TacklerModel.Lemmas.RoundTripTxn
import TacklerModel.Lemmas.RoundTripTs
/-!
# What the parsers return is well-formed ("parse ⇒ lexically well-formed")

The inverse direction of the print-then-parse lemmas of `Lemmas/RoundTrip*.lean`: one lemma per parser of
`Model/Syntax` of the form `p s = .ok x r → WF x`, where `WF` is the predicate the corresponding
print-then-parse lemma assumes (`NumWF`, `IdentWF`, `PartsWF`, `LineText`, `UuidWF`, `GeoWF`, `TagsWF`,
`HeaderWF`, …).  Composed up to `parseTxn` / `parseTxns` here and to `C06.RawLex` in `Props/C06b.lean`.
-/
namespace Tackler
namespace Comb

/-! ## inversion of the combinators -/

theorem alt_ok {α} {p q : P α} {s r : List Char} {a : α} (h : alt p q s = .ok a r) :
    p s = .ok a r ∨ q s = .ok a r := by
  unfold alt at h
  split at h
  · rename_i a' r' hp; cases h; exact Or.inl hp
  · exact Or.inr h
  · cases h

theorem opt_ok {α} {p : P α} {s r : List Char} {o : Option α} (h : opt p s = .ok o r) :
    (∃ a, o = some a ∧ p s = .ok a r) ∨ (o = none ∧ r = s) := by
  unfold opt at h
  split at h
  · rename_i a' r' hp; cases h; exact Or.inl ⟨a', rfl, hp⟩
  · cases h; exact Or.inr ⟨rfl, rfl⟩
  · cases h

theorem cutErr_ok {α} {p : P α} {s r : List Char} {a : α} (h : cutErr p s = .ok a r) : p s = .ok a r := by
  unfold cutErr at h
  split at h
  · rename_i a' r' hp; cases h; exact hp
  · cases h
  · cases h

/-- every item `repeat(0.., p)` collects was returned by `p` -/
theorem repeat0G_all {α} (stall : Res (List α)) (p : P α) (Q : α → Prop)
    (hp : ∀ s a r, p s = .ok a r → Q a) (hst : ∀ l r, stall = .ok l r → ∀ x ∈ l, Q x) :
    ∀ (fuel : Nat) (s : List Char) (l : List α) (r : List Char),
      repeat0G stall p fuel s = .ok l r → ∀ x ∈ l, Q x := by
  intro fuel
  induction fuel with
  | zero => intro s l r h; exact hst l r h
  | succ n ih =>
    intro s l r h
    simp only [repeat0G] at h
    split at h
    · rename_i a r' hps
      split at h
      · obtain ⟨l', e1, rfl⟩ := (Res.map_ok _ _ _ _).mp h
        intro x hx
        rcases List.mem_cons.mp hx with rfl | hx
        · exact hp s _ r' hps
        · exact ih r' l' r e1 x hx
      · exact hst l r h
    · cases h; intro x hx; cases hx
    · cases h

theorem repeat0_all {α} (p : P α) (Q : α → Prop) (hp : ∀ s a r, p s = .ok a r → Q a)
    {s : List Char} {l : List α} {r : List Char} (h : repeat0 p s = .ok l r) : ∀ x ∈ l, Q x :=
  repeat0G_all .cut p Q hp (fun _ _ e => by cases e) _ s l r h

theorem repeat1_all {α} (p : P α) (Q : α → Prop) (hp : ∀ s a r, p s = .ok a r → Q a)
    {s : List Char} {l : List α} {r : List Char} (h : repeat1 p s = .ok l r) : l ≠ [] ∧ ∀ x ∈ l, Q x := by
  unfold repeat1 at h
  obtain ⟨a, s', h1, h2⟩ := (Res.bind_ok _ _ _ _).mp h
  obtain ⟨l', e1, rfl⟩ := (Res.map_ok _ _ _ _).mp h2
  refine ⟨by simp, ?_⟩
  intro x hx
  rcases List.mem_cons.mp hx with rfl | hx
  · exact hp s _ s' h1
  · exact repeat0_all p Q hp e1 x hx

theorem repeatTillG_all {α β} (stall : Res (List α)) (f : P α) (g : P β) (Q : α → Prop)
    (hf : ∀ s a r, f s = .ok a r → Q a) (hst : ∀ l r, stall = .ok l r → ∀ x ∈ l, Q x) :
    ∀ (fuel : Nat) (s : List Char) (l : List α) (r : List Char),
      repeatTillG stall f g fuel s = .ok l r → ∀ x ∈ l, Q x := by
  intro fuel
  induction fuel with
  | zero => intro s l r h; exact hst l r h
  | succ n ih =>
    intro s l r h
    simp only [repeatTillG] at h
    split at h
    · cases h; intro x hx; cases hx
    · cases h
    · split at h
      · rename_i a r' hfs
        split at h
        · obtain ⟨l', e1, rfl⟩ := (Res.map_ok _ _ _ _).mp h
          intro x hx
          rcases List.mem_cons.mp hx with rfl | hx
          · exact hf s _ r' hfs
          · exact ih r' l' r e1 x hx
        · exact hst l r h
      · cases h
      · cases h

theorem repeatTill1_all {α β} (f : P α) (g : P β) (Q : α → Prop) (hf : ∀ s a r, f s = .ok a r → Q a)
    {s : List Char} {l : List α} {r : List Char} (h : repeatTill1 f g s = .ok l r) : l ≠ [] ∧ ∀ x ∈ l, Q x := by
  unfold repeatTill1 at h
  obtain ⟨a, s', h1, h2⟩ := (Res.bind_ok _ _ _ _).mp h
  obtain ⟨l', e1, rfl⟩ := (Res.map_ok _ _ _ _).mp h2
  refine ⟨by simp, ?_⟩
  intro x hx
  rcases List.mem_cons.mp hx with rfl | hx
  · exact hf s _ s' h1
  · exact repeatTillG_all .cut f g Q hf (fun _ _ e => by cases e) _ s' l' r e1 x hx

end Comb

namespace Syntax
open Comb Print

/-! ## identifiers, names -/

theorem pIdentifier_ok_wf {s r l : List Char} (h : pIdentifier s = .ok l r) : IdentWF l := by
  unfold pIdentifier at h
  obtain ⟨c, s1, h1, h2⟩ := (Res.bind_ok _ _ _ _).mp h
  obtain ⟨t, s2, h3, h4⟩ := (Res.bind_ok _ _ _ _).mp h2
  cases h4
  exact ⟨c, t, rfl, (oneOf_ok _ _ _ _ h1).2, (takeWhile0_ok _ _ _ _ h3).2.1⟩

theorem pIdPartHelper_ok_wf {s r l : List Char} (h : pIdPartHelper s = .ok l r) : PartWF l := by
  unfold pIdPartHelper at h
  obtain ⟨_, s1, _, h2⟩ := (Res.bind_ok _ _ _ _).mp h
  have h3 := cutErr_ok h2
  unfold pIdPart at h3
  obtain ⟨_, hne, hall, _⟩ := takeWhile1_ok _ _ _ _ h3
  exact ⟨hne, hall⟩

/-- **multi-part name**: what `p_multi_part_id` returns are the components of `ID (':' SUBID)*` -/
theorem pMultiPartId_ok_wf {s r : List Char} {parts : List (List Char)} (h : pMultiPartId s = .ok parts r) :
    PartsWF parts := by
  unfold pMultiPartId at h
  obtain ⟨a, s1, h1, h2⟩ := (Res.bind_ok _ _ _ _).mp h
  obtain ⟨t, s2, h3, h4⟩ := (Res.bind_ok _ _ _ _).mp h2
  cases h4
  exact ⟨a, t, rfl, pIdentifier_ok_wf h1,
    repeat0_all pIdPartHelper PartWF (fun _ _ _ e => pIdPartHelper_ok_wf e) (cutErr_ok h3)⟩

/-! ## numbers -/

/-- **number**: what `p_number` returns is a representable decimal without a negative zero -/
theorem pNumber_ok_numWF {s r : List Char} {d : Dec} (h : pNumber s = .ok d r) : NumWF d := by
  unfold pNumber at h
  obtain ⟨t, s', _, h2⟩ := (Res.bind_ok _ _ _ _).mp h
  split at h2
  · rename_i d' hd
    cases h2
    unfold Dec.ofToken at hd
    simp only at hd
    split at hd
    · cases hd
    · split at hd
      · cases hd
      · cases hd
        refine ⟨by simp; omega, by simp; omega, ?_⟩
        intro hn
        simp at hn
        simpa using hn.2
  · cases h2

/-! ## comments -/

theorem pComment_ok_lineText {s r c : List Char} (h : pComment s = .ok c r) : LineText c := by
  unfold pComment at h
  obtain ⟨_, s1, _, h1⟩ := (Res.bind_ok _ _ _ _).mp h
  rcases alt_ok (cutErr_ok h1) with h2 | h2
  · obtain ⟨_, _, rfl⟩ := (Res.map_ok _ _ _ _).mp h2
    intro c hc; cases hc
  · obtain ⟨_, s2, _, h3⟩ := (Res.bind_ok _ _ _ _).mp h2
    exact (tillLineEnding_ok _ _ _ h3).2.1

theorem parseTxnComment_ok_lineText {s r : List Char} {c : String} (h : parseTxnComment s = .ok c r) :
    LineText c.toList := by
  unfold parseTxnComment at h
  obtain ⟨_, s1, _, h1⟩ := (Res.bind_ok _ _ _ _).mp h
  obtain ⟨x, s2, hx, h2⟩ := (Res.bind_ok _ _ _ _).mp h1
  obtain ⟨_, s3, _, h3⟩ := (Res.bind_ok _ _ _ _).mp h2
  cases h3
  rw [String.toList_ofList]
  exact pComment_ok_lineText hx

theorem optComment_ok {s r : List Char} {o : Option (List Char)} (h : opt pComment s = .ok o r) :
    ∀ c, optString o = some c → LineText c.toList := by
  intro c hc
  rcases opt_ok h with ⟨x, rfl, hx⟩ | ⟨rfl, _⟩
  · simp only [optString, Option.some.injEq] at hc
    subst hc
    rw [String.toList_ofList]
    exact pComment_ok_lineText hx
  · cases hc

/-! ## uuid -/

theorem toLower_hex (c : Char) (h : isHexDigit c = true) : isLowerHex c.toLower = true := by
  simp only [isHexDigit, isDecDigit, Bool.or_eq_true, Bool.and_eq_true, decide_eq_true_eq] at h
  by_cases hu : 65 ≤ c.toNat ∧ c.toNat ≤ 70
  · have hc : c = Char.ofNat c.toNat := (Char.ofNat_toNat c).symm
    have : c.toNat = 65 ∨ c.toNat = 66 ∨ c.toNat = 67 ∨ c.toNat = 68 ∨ c.toNat = 69 ∨ c.toNat = 70 := by omega
    rcases this with e | e | e | e | e | e <;> (rw [hc, e]; decide)
  · rw [toLower_of_not_upper c (by omega)]
    simp only [isLowerHex, isDecDigit, Bool.or_eq_true, Bool.and_eq_true, decide_eq_true_eq]
    omega

theorem hexN_ok {n : Nat} {s r a : List Char} (h : hexN n s = .ok a r) :
    a.length = n ∧ ∀ x ∈ a, isHexDigit x = true := by
  unfold hexN at h
  obtain ⟨_, h1, h2, h3⟩ := takeMN_ok _ _ _ _ _ _ (cutErr_ok h)
  exact ⟨by omega, h3⟩

theorem dash_ok {s r a : List Char} (h : dash s = .ok a r) : a = ['-'] := by
  unfold dash at h
  obtain ⟨c, h1, rfl⟩ := (Res.map_ok _ _ _ _).mp h
  rw [(chr_ok _ _ _ _ (cutErr_ok h1)).2]

/-- **uuid**: what `p_uuid` returns is the canonical lower-case `8-4-4-4-12` text -/
theorem pUuid_ok_wf {s r : List Char} {u : String} (h : pUuid s = .ok u r) : UuidWF u.toList := by
  unfold pUuid at h
  obtain ⟨a, s1, ha, h⟩ := (Res.bind_ok _ _ _ _).mp h
  obtain ⟨d1, s2, hd1, h⟩ := (Res.bind_ok _ _ _ _).mp h
  obtain ⟨b, s3, hb, h⟩ := (Res.bind_ok _ _ _ _).mp h
  obtain ⟨d2, s4, hd2, h⟩ := (Res.bind_ok _ _ _ _).mp h
  obtain ⟨c, s5, hc, h⟩ := (Res.bind_ok _ _ _ _).mp h
  obtain ⟨d3, s6, hd3, h⟩ := (Res.bind_ok _ _ _ _).mp h
  obtain ⟨d, s7, hd, h⟩ := (Res.bind_ok _ _ _ _).mp h
  obtain ⟨d4, s8, hd4, h⟩ := (Res.bind_ok _ _ _ _).mp h
  obtain ⟨e, s9, he, h⟩ := (Res.bind_ok _ _ _ _).mp h
  cases h
  rw [dash_ok hd1, dash_ok hd2, dash_ok hd3, dash_ok hd4, String.toList_ofList]
  obtain ⟨la, xa⟩ := hexN_ok ha
  obtain ⟨lb, xb⟩ := hexN_ok hb
  obtain ⟨lc, xc⟩ := hexN_ok hc
  obtain ⟨ld, xd⟩ := hexN_ok hd
  obtain ⟨le, xe⟩ := hexN_ok he
  have hdash : Char.toLower '-' = '-' := by decide
  refine ⟨a.map Char.toLower, b.map Char.toLower, c.map Char.toLower, d.map Char.toLower, e.map Char.toLower,
    by simp [hdash], by simpa using la, by simpa using lb, by simpa using lc, by simpa using ld, by simpa using le, ?_⟩
  intro x hx
  simp only [List.mem_append, List.mem_map] at hx
  rcases hx with (((⟨y, hy, rfl⟩ | ⟨y, hy, rfl⟩) | ⟨y, hy, rfl⟩) | ⟨y, hy, rfl⟩) | ⟨y, hy, rfl⟩
  · exact toLower_hex y (xa y hy)
  · exact toLower_hex y (xb y hy)
  · exact toLower_hex y (xc y hy)
  · exact toLower_hex y (xd y hy)
  · exact toLower_hex y (xe y hy)

/-! ## metadata lines -/

/-- a metadata line returns what its value parser returned -/
theorem metaLine_ok {α} {key : List Char} {value : P α} {s r : List Char} {v : α}
    (h : metaLine key value s = .ok v r) : ∃ s' r', value s' = .ok v r' := by
  unfold metaLine at h
  obtain ⟨_, s1, _, h⟩ := (Res.bind_ok _ _ _ _).mp h
  obtain ⟨_, s2, _, h⟩ := (Res.bind_ok _ _ _ _).mp h
  obtain ⟨_, s3, _, h⟩ := (Res.bind_ok _ _ _ _).mp h
  obtain ⟨_, s4, _, h⟩ := (Res.bind_ok _ _ _ _).mp h
  obtain ⟨_, s5, _, h⟩ := (Res.bind_ok _ _ _ _).mp h
  obtain ⟨v', s6, hv, h⟩ := (Res.bind_ok _ _ _ _).mp h
  obtain ⟨_, s7, _, h⟩ := (Res.bind_ok _ _ _ _).mp h
  obtain ⟨_, s8, _, h⟩ := (Res.bind_ok _ _ _ _).mp h
  cases h
  exact ⟨s5, s6, cutErr_ok hv⟩

theorem parseMetaUuid_ok_wf {s r : List Char} {u : String} (h : parseMetaUuid s = .ok u r) : UuidWF u.toList := by
  obtain ⟨_, _, hv⟩ := metaLine_ok h
  exact pUuid_ok_wf hv

/-- **geo URI**: the numbers are well-formed and the point passed `GeoPoint::from` -/
theorem pGeoUri_ok_wf {s r : List Char} {g : Geo} (h : pGeoUri s = .ok g r) : GeoWF g := by
  unfold pGeoUri at h
  obtain ⟨_, s1, _, h⟩ := (Res.bind_ok _ _ _ _).mp h
  obtain ⟨_, s2, _, h⟩ := (Res.bind_ok _ _ _ _).mp h
  obtain ⟨lat, s3, hlat, h⟩ := (Res.bind_ok _ _ _ _).mp h
  obtain ⟨_, s4, _, h⟩ := (Res.bind_ok _ _ _ _).mp h
  obtain ⟨_, s5, _, h⟩ := (Res.bind_ok _ _ _ _).mp h
  obtain ⟨_, s6, _, h⟩ := (Res.bind_ok _ _ _ _).mp h
  obtain ⟨lon, s7, hlon, h⟩ := (Res.bind_ok _ _ _ _).mp h
  obtain ⟨_, s8, _, h⟩ := (Res.bind_ok _ _ _ _).mp h
  obtain ⟨alt, s9, halt, h⟩ := (Res.bind_ok _ _ _ _).mp h
  split at h
  · rename_i hok
    cases h
    refine ⟨pNumber_ok_numWF (cutErr_ok hlat), pNumber_ok_numWF (cutErr_ok hlon), ?_, hok⟩
    intro a ha
    simp only at ha
    subst ha
    rcases opt_ok halt with ⟨a', e, ha'⟩ | ⟨e, _⟩
    · cases e
      obtain ⟨_, t1, _, h1⟩ := (Res.bind_ok _ _ _ _).mp ha'
      obtain ⟨_, t2, _, h2⟩ := (Res.bind_ok _ _ _ _).mp h1
      exact pNumber_ok_numWF (cutErr_ok h2)
    · cases e
  · cases h

theorem parseMetaLocation_ok_wf {s r : List Char} {g : Geo} (h : parseMetaLocation s = .ok g r) : GeoWF g := by
  obtain ⟨_, _, hv⟩ := metaLine_ok h
  exact pGeoUri_ok_wf hv

theorem pTagTail_ok_wf {s r : List Char} {parts : List (List Char)} (h : pTagTail s = .ok parts r) : PartsWF parts := by
  unfold pTagTail at h
  obtain ⟨_, s1, _, h⟩ := (Res.bind_ok _ _ _ _).mp h
  obtain ⟨_, s2, _, h⟩ := (Res.bind_ok _ _ _ _).mp h
  obtain ⟨_, s3, _, h⟩ := (Res.bind_ok _ _ _ _).mp h
  exact pMultiPartId_ok_wf (cutErr_ok h)

/-- **tags**: a non-empty list of `:`-joined multi-part names -/
theorem pTags_ok_wf {s r : List Char} {tags : List String} (h : pTags s = .ok tags r) : TagsWF tags := by
  unfold pTags at h
  obtain ⟨t, s1, ht, h⟩ := (Res.bind_ok _ _ _ _).mp h
  obtain ⟨ts, s2, hts, h⟩ := (Res.bind_ok _ _ _ _).mp h
  cases h
  refine ⟨t, ts, rfl, ?_⟩
  intro parts hp
  rcases List.mem_cons.mp hp with rfl | hp
  · exact pMultiPartId_ok_wf (cutErr_ok ht)
  · exact repeat0_all pTagTail PartsWF (fun _ _ _ e => pTagTail_ok_wf e) hts parts hp

theorem parseMetaTags_ok_wf {s r : List Char} {tags : List String} (h : parseMetaTags s = .ok tags r) : TagsWF tags := by
  obtain ⟨_, _, hv⟩ := metaLine_ok h
  exact pTags_ok_wf hv

/-- the three optional metadata values of a `TxnMeta` are well-formed -/
structure TxnMetaWF (m : TxnMeta) : Prop where
  uuid : ∀ u, m.uuid = some u → UuidWF u.toList
  location : ∀ g, m.location = some g → GeoWF g
  tags : ∀ t, m.tags = some t → TagsWF t

theorem optUuid_ok {s r : List Char} {o : Option String} (h : opt parseMetaUuid s = .ok o r) :
    ∀ u, o = some u → UuidWF u.toList := by
  intro u hu
  rcases opt_ok h with ⟨x, e, hx⟩ | ⟨e, _⟩
  · rw [e] at hu; cases hu; exact parseMetaUuid_ok_wf hx
  · rw [e] at hu; cases hu

theorem optLocation_ok {s r : List Char} {o : Option Geo} (h : opt parseMetaLocation s = .ok o r) :
    ∀ g, o = some g → GeoWF g := by
  intro u hu
  rcases opt_ok h with ⟨x, e, hx⟩ | ⟨e, _⟩
  · rw [e] at hu; cases hu; exact parseMetaLocation_ok_wf hx
  · rw [e] at hu; cases hu

theorem optTags_ok {s r : List Char} {o : Option (List String)} (h : opt parseMetaTags s = .ok o r) :
    ∀ t, o = some t → TagsWF t := by
  intro u hu
  rcases opt_ok h with ⟨x, e, hx⟩ | ⟨e, _⟩
  · rw [e] at hu; cases hu; exact parseMetaTags_ok_wf hx
  · rw [e] at hu; cases hu

/-- **metadata block**: whichever of the nine permutations matched, its values are well-formed -/
theorem parseTxnMeta_ok_wf {s r : List Char} {m : TxnMeta} (h : parseTxnMeta s = .ok m r) : TxnMetaWF m := by
  unfold parseTxnMeta at h
  rcases alt_ok h with h | h
  · unfold permutationUuidTagsOLocation at h
    obtain ⟨u, s1, hu, h⟩ := (Res.bind_ok _ _ _ _).mp h
    obtain ⟨t, s2, ht, h⟩ := (Res.bind_ok _ _ _ _).mp h
    obtain ⟨l, s3, hl, h⟩ := (Res.bind_ok _ _ _ _).mp h
    cases h
    exact ⟨(fun _ e => by cases e; exact parseMetaUuid_ok_wf hu), optLocation_ok hl,
      (fun _ e => by cases e; exact parseMetaTags_ok_wf ht)⟩
  rcases alt_ok h with h | h
  · unfold permutationUuidLocationOTags at h
    obtain ⟨u, s1, hu, h⟩ := (Res.bind_ok _ _ _ _).mp h
    obtain ⟨l, s2, hl, h⟩ := (Res.bind_ok _ _ _ _).mp h
    obtain ⟨t, s3, ht, h⟩ := (Res.bind_ok _ _ _ _).mp h
    cases h
    exact ⟨(fun _ e => by cases e; exact parseMetaUuid_ok_wf hu),
      (fun _ e => by cases e; exact parseMetaLocation_ok_wf hl), optTags_ok ht⟩
  rcases alt_ok h with h | h
  · unfold permutationUuid at h
    obtain ⟨u, s1, hu, h⟩ := (Res.bind_ok _ _ _ _).mp h
    cases h
    exact ⟨(fun _ e => by cases e; exact parseMetaUuid_ok_wf hu), (fun _ e => by cases e), (fun _ e => by cases e)⟩
  rcases alt_ok h with h | h
  · unfold permutationTagsUuidOLocation at h
    obtain ⟨t, s1, ht, h⟩ := (Res.bind_ok _ _ _ _).mp h
    obtain ⟨u, s2, hu, h⟩ := (Res.bind_ok _ _ _ _).mp h
    obtain ⟨l, s3, hl, h⟩ := (Res.bind_ok _ _ _ _).mp h
    cases h
    exact ⟨(fun _ e => by cases e; exact parseMetaUuid_ok_wf hu), optLocation_ok hl,
      (fun _ e => by cases e; exact parseMetaTags_ok_wf ht)⟩
  rcases alt_ok h with h | h
  · unfold permutationTagsLocationOUuid at h
    obtain ⟨t, s1, ht, h⟩ := (Res.bind_ok _ _ _ _).mp h
    obtain ⟨l, s2, hl, h⟩ := (Res.bind_ok _ _ _ _).mp h
    obtain ⟨u, s3, hu, h⟩ := (Res.bind_ok _ _ _ _).mp h
    cases h
    exact ⟨optUuid_ok hu, (fun _ e => by cases e; exact parseMetaLocation_ok_wf hl),
      (fun _ e => by cases e; exact parseMetaTags_ok_wf ht)⟩
  rcases alt_ok h with h | h
  · unfold permutationTags at h
    obtain ⟨t, s1, ht, h⟩ := (Res.bind_ok _ _ _ _).mp h
    cases h
    exact ⟨(fun _ e => by cases e), (fun _ e => by cases e), (fun _ e => by cases e; exact parseMetaTags_ok_wf ht)⟩
  rcases alt_ok h with h | h
  · unfold permutationLocationUuidOTags at h
    obtain ⟨l, s1, hl, h⟩ := (Res.bind_ok _ _ _ _).mp h
    obtain ⟨u, s2, hu, h⟩ := (Res.bind_ok _ _ _ _).mp h
    obtain ⟨t, s3, ht, h⟩ := (Res.bind_ok _ _ _ _).mp h
    cases h
    exact ⟨(fun _ e => by cases e; exact parseMetaUuid_ok_wf hu),
      (fun _ e => by cases e; exact parseMetaLocation_ok_wf hl), optTags_ok ht⟩
  rcases alt_ok h with h | h
  · unfold permutationLocationTagsOUuid at h
    obtain ⟨l, s1, hl, h⟩ := (Res.bind_ok _ _ _ _).mp h
    obtain ⟨t, s2, ht, h⟩ := (Res.bind_ok _ _ _ _).mp h
    obtain ⟨u, s3, hu, h⟩ := (Res.bind_ok _ _ _ _).mp h
    cases h
    exact ⟨optUuid_ok hu, (fun _ e => by cases e; exact parseMetaLocation_ok_wf hl),
      (fun _ e => by cases e; exact parseMetaTags_ok_wf ht)⟩
  · unfold permutationLocation at h
    obtain ⟨l, s1, hl, h⟩ := (Res.bind_ok _ _ _ _).mp h
    cases h
    exact ⟨(fun _ e => by cases e), (fun _ e => by cases e; exact parseMetaLocation_ok_wf hl), (fun _ e => by cases e)⟩

/-! ## posting value -/

/-- a closing position as the grammar stores it: an identifier and a well-formed number -/
def ClosingLex : Closing → Prop
  | .total v => IdentWF v.comm.toList ∧ NumWF v.value
  | .unitPrice v => IdentWF v.comm.toList ∧ NumWF v.value

theorem pClosingPos_ok_wf {s r : List Char} {cl : Closing} (h : pClosingPos s = .ok cl r) : ClosingLex cl := by
  unfold pClosingPos at h
  obtain ⟨_, s1, _, h⟩ := (Res.bind_ok _ _ _ _).mp h
  obtain ⟨k, s2, _, h⟩ := (Res.bind_ok _ _ _ _).mp h
  obtain ⟨_, s3, _, h⟩ := (Res.bind_ok _ _ _ _).mp h
  obtain ⟨v, s4, hv, h⟩ := (Res.bind_ok _ _ _ _).mp h
  obtain ⟨_, s5, _, h⟩ := (Res.bind_ok _ _ _ _).mp h
  obtain ⟨c, s6, hc, h⟩ := (Res.bind_ok _ _ _ _).mp h
  have hid := pIdentifier_ok_wf (cutErr_ok hc)
  have hnum := pNumber_ok_numWF (cutErr_ok hv)
  split at h
  · rename_i cl' hcl
    cases h
    unfold closingOf at hcl
    split at hcl
    · cases hcl; exact ⟨by simpa [String.toList_ofList] using hid, hnum⟩
    · split at hcl
      · cases hcl; exact ⟨by simpa [String.toList_ofList] using hid, hnum⟩
      · cases hcl
  · cases h

theorem pPosition_ok_wf {s r : List Char} {o : Option Val} {cl : Option Closing} (h : pPosition s = .ok (o, cl) r) :
    ∀ c, cl = some c → ClosingLex c := by
  intro c hc
  unfold pPosition at h
  rcases alt_ok h with h | h
  · obtain ⟨_, s1, _, h⟩ := (Res.bind_ok _ _ _ _).mp h
    obtain ⟨c', s2, hc', h⟩ := (Res.bind_ok _ _ _ _).mp h
    cases h; cases hc
    exact pClosingPos_ok_wf hc'
  rcases alt_ok h with h | h
  · obtain ⟨_, _, e⟩ := (Res.map_ok _ _ _ _).mp h
    cases e; cases hc
  · obtain ⟨c', hc', e⟩ := (Res.map_ok _ _ _ _).mp h
    cases e; cases hc
    exact pClosingPos_ok_wf hc'

theorem pUnit_ok_wf {s r : List Char} {u : PostUnit} (h : pUnit s = .ok u r) :
    IdentWF u.comm.toList ∧ ∀ c, u.closing = some c → ClosingLex c := by
  unfold pUnit at h
  obtain ⟨_, s1, _, h⟩ := (Res.bind_ok _ _ _ _).mp h
  obtain ⟨c, s2, hc, h⟩ := (Res.bind_ok _ _ _ _).mp h
  obtain ⟨pos, s3, hpos, h⟩ := (Res.bind_ok _ _ _ _).mp h
  have hid := pIdentifier_ok_wf hc
  split at h
  · rename_i o cl
    cases h
    refine ⟨by simpa [String.toList_ofList] using hid, ?_⟩
    rcases opt_ok hpos with ⟨x, e, hx⟩ | ⟨e, _⟩
    · cases e; exact pPosition_ok_wf hx
    · cases e
  · cases h
    exact ⟨by simpa [String.toList_ofList] using hid, fun _ e => by cases e⟩

/-- lexical well-formedness of a posting's unit (the form `C06.RawPostingLex.unit` has) -/
def UnitLex (unit : Option PostUnit) : Prop :=
  ∀ u, unit = some u → IdentWF u.comm.toList ∧ isValidId u.comm.toList = true ∧
    (∀ v, (u.closing = some (.total v) ∨ u.closing = some (.unitPrice v)) →
      IdentWF v.comm.toList ∧ isValidId v.comm.toList = true ∧ NumWF v.value)

/-- **posting value**: `number [commodity [@|= number commodity]]` -/
theorem parsePostingValue_ok_wf {s r : List Char} {a : Dec} {unit : Option PostUnit}
    (h : parsePostingValue s = .ok (a, unit) r) : NumWF a ∧ UnitLex unit := by
  unfold parsePostingValue at h
  obtain ⟨a', s1, ha, h⟩ := (Res.bind_ok _ _ _ _).mp h
  obtain ⟨u', s2, hu, h⟩ := (Res.bind_ok _ _ _ _).mp h
  split at h
  · rename_i hok
    cases h
    refine ⟨pNumber_ok_numWF ha, ?_⟩
    intro u hu'
    subst hu'
    rcases opt_ok hu with ⟨x, e, hx⟩ | ⟨e, _⟩
    · cases e
      obtain ⟨hid, hcl⟩ := pUnit_ok_wf hx
      simp only [unitCommsOk, Bool.and_eq_true] at hok
      refine ⟨hid, hok.1, ?_⟩
      intro v hv
      rcases hv with hv | hv
      · have := hcl _ hv
        rw [hv] at hok
        exact ⟨this.1, hok.2, this.2⟩
      · have := hcl _ hv
        rw [hv] at hok
        exact ⟨this.1, hok.2, this.2⟩
    · cases e
  · cases h

/-! ## posting lines -/

/-- lexical well-formedness of a parsed posting (the fields of `C06.RawPostingLex`) -/
structure PostLex (rp : RawPosting) : Prop where
  acct : ∃ parts, PartsWF parts ∧ rp.acct = toPath parts ∧ acctOk parts = true
  amount : NumWF rp.amount
  unit : UnitLex rp.unit
  comment : ∀ c, rp.comment = some c → LineText c.toList

/-- **posting line** -/
theorem parseTxnPosting_ok_wf {s r : List Char} {rp : RawPosting} (h : parseTxnPosting s = .ok rp r) : PostLex rp := by
  unfold parseTxnPosting at h
  obtain ⟨_, s1, _, h⟩ := (Res.bind_ok _ _ _ _).mp h
  obtain ⟨acct, s2, hacct, h⟩ := (Res.bind_ok _ _ _ _).mp h
  obtain ⟨_, s3, _, h⟩ := (Res.bind_ok _ _ _ _).mp h
  obtain ⟨v, s4, hv, h⟩ := (Res.bind_ok _ _ _ _).mp h
  obtain ⟨_, s5, _, h⟩ := (Res.bind_ok _ _ _ _).mp h
  obtain ⟨c, s6, hc, h⟩ := (Res.bind_ok _ _ _ _).mp h
  obtain ⟨_, s7, _, h⟩ := (Res.bind_ok _ _ _ _).mp h
  split at h
  · rename_i hok
    cases h
    obtain ⟨hn, hu⟩ := parsePostingValue_ok_wf (a := v.1) (unit := v.2) hv
    exact ⟨⟨acct, pMultiPartId_ok_wf hacct, rfl, hok⟩, hn, hu, optComment_ok hc⟩
  · cases h

/-- **amount-less last posting line** -/
theorem parseTxnLastPosting_ok_wf {s r : List Char} {acct : List (List Char)} {c : Option String}
    (h : parseTxnLastPosting s = .ok (acct, c) r) : PartsWF acct ∧ ∀ x, c = some x → LineText x.toList := by
  unfold parseTxnLastPosting at h
  obtain ⟨_, s1, _, h⟩ := (Res.bind_ok _ _ _ _).mp h
  obtain ⟨acct', s2, hacct, h⟩ := (Res.bind_ok _ _ _ _).mp h
  obtain ⟨_, s3, _, h⟩ := (Res.bind_ok _ _ _ _).mp h
  obtain ⟨c', s4, hc, h⟩ := (Res.bind_ok _ _ _ _).mp h
  obtain ⟨_, s5, _, h⟩ := (Res.bind_ok _ _ _ _).mp h
  cases h
  exact ⟨pMultiPartId_ok_wf hacct, optComment_ok hc⟩

/-- **postings of a transaction** -/
theorem parseTxnPostings_ok_wf {s r : List Char} {ps : List RawPosting} {last : Option (Path × Option String)}
    (h : parseTxnPostings s = .ok (ps, last) r) :
    ps ≠ [] ∧ (∀ rp ∈ ps, PostLex rp) ∧
    (∀ a c, last = some (a, c) →
      (∃ parts, PartsWF parts ∧ a = toPath parts ∧ acctOk parts = true) ∧ (∀ x, c = some x → LineText x.toList)) := by
  unfold parseTxnPostings at h
  obtain ⟨ps', s1, hps, h⟩ := (Res.bind_ok _ _ _ _).mp h
  obtain ⟨l, s2, hl, h⟩ := (Res.bind_ok _ _ _ _).mp h
  obtain ⟨hne, hall⟩ := repeat1_all parseTxnPosting PostLex (fun _ _ _ e => parseTxnPosting_ok_wf e) hps
  split at h
  · cases h
    exact ⟨hne, hall, fun _ _ e => by cases e⟩
  · rename_i acct c
    split at h
    · rename_i hok
      cases h
      refine ⟨hne, hall, ?_⟩
      intro a c' e
      cases e
      rcases opt_ok hl with ⟨x, e, hx⟩ | ⟨e, _⟩
      · cases e
        obtain ⟨hp, hc⟩ := parseTxnLastPosting_ok_wf hx
        exact ⟨⟨acct, hp, rfl, hok⟩, hc⟩
      · cases e
    · cases h

/-! ## timestamps: every parsed timestamp is a resolved token -/

/-- what the grammar guarantees about the fraction digits of a token: 1–9 ASCII digits -/
def FracDigits (t : Time.TsToken) : Prop :=
  ∀ h mi s ds, t.time = some (h, mi, s, some ds) → (∀ c ∈ ds, isDecDigit c = true) ∧ ds.length ≤ 9

theorem ofOutcome_ok {α} {o : Outcome α} {s r : List Char} {a : α} (h : ofOutcome o s = .ok a r) : o = .ok a := by
  unfold ofOutcome at h
  split at h
  · cases h; rfl
  · cases h
  · cases h

theorem pDatetime_ok_frac {s r : List Char} {d : Nat × Nat × Nat} {hh mi sec : Nat} {frac : Option (List Char)}
    (h : pDatetime s = .ok (d, (hh, mi, sec, frac)) r) :
    ∀ ds, frac = some ds → (∀ c ∈ ds, isDecDigit c = true) ∧ ds.length ≤ 9 := by
  unfold pDatetime at h
  obtain ⟨_, s1, _, h⟩ := (Res.bind_ok _ _ _ _).mp h
  obtain ⟨_, s2, _, h⟩ := (Res.bind_ok _ _ _ _).mp h
  obtain ⟨_, s3, _, h⟩ := (Res.bind_ok _ _ _ _).mp h
  obtain ⟨_, s4, _, h⟩ := (Res.bind_ok _ _ _ _).mp h
  obtain ⟨_, s5, _, h⟩ := (Res.bind_ok _ _ _ _).mp h
  obtain ⟨_, s6, _, h⟩ := (Res.bind_ok _ _ _ _).mp h
  obtain ⟨_, s7, _, h⟩ := (Res.bind_ok _ _ _ _).mp h
  obtain ⟨fr, s8, hfr, h⟩ := (Res.bind_ok _ _ _ _).mp h
  split at h
  · cases h
    intro ds hds
    subst hds
    rcases opt_ok hfr with ⟨x, e, hx⟩ | ⟨e, _⟩
    · cases e
      obtain ⟨_, t1, _, h1⟩ := (Res.bind_ok _ _ _ _).mp hx
      obtain ⟨_, _, h3, h4⟩ := takeMN_ok _ _ _ _ _ _ (cutErr_ok h1)
      exact ⟨h4, h3⟩
    · cases e
  · cases h

/-- **timestamp**: whichever of the three notations matched, the result is `resolveTs` of a token whose
    fraction (if any) has 1–9 digits -/
theorem parseTimestamp_resolved {cfg : Time.TsCfg} {s r : List Char} {ts : Ts} (h : parseTimestamp cfg s = .ok ts r) :
    ∃ t, FracDigits t ∧ Time.resolveTs cfg t = .ok ts := by
  unfold parseTimestamp at h
  rcases alt_ok h with h | h
  · unfold parseDatetimeTz at h
    obtain ⟨dt, s1, hdt, h⟩ := (Res.bind_ok _ _ _ _).mp h
    obtain ⟨z, s2, _, h⟩ := (Res.bind_ok _ _ _ _).mp h
    refine ⟨_, ?_, ofOutcome_ok h⟩
    intro hh mi sec ds e
    simp only [Option.some.injEq] at e
    obtain ⟨d, hh', mi', sec', fr⟩ := dt
    simp only [Prod.mk.injEq] at e
    obtain ⟨_, _, _, rfl⟩ := e
    exact pDatetime_ok_frac hdt ds rfl
  rcases alt_ok h with h | h
  · unfold parseDatetime at h
    obtain ⟨dt, s1, hdt, h⟩ := (Res.bind_ok _ _ _ _).mp h
    refine ⟨_, ?_, ofOutcome_ok h⟩
    intro hh mi sec ds e
    simp only [Option.some.injEq] at e
    obtain ⟨d, hh', mi', sec', fr⟩ := dt
    simp only [Prod.mk.injEq] at e
    obtain ⟨_, _, _, rfl⟩ := e
    exact pDatetime_ok_frac hdt ds rfl
  rcases alt_ok h with h | h
  · unfold parseDate at h
    obtain ⟨d, s1, _, h⟩ := (Res.bind_ok _ _ _ _).mp h
    refine ⟨_, ?_, ofOutcome_ok h⟩
    intro hh mi sec ds e
    cases e
  · cases h

end Syntax
end Tackler

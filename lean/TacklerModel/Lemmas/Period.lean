import TacklerModel.Lemmas.Time
import TacklerModel.Model.Group
/-!
# Lemmas about period keys (C13)

* the calendar: the day after a civil date (`civil_succ`), bounds of a civil year, the ISO week date of a day number
  pinned down tightly (`isoOf_spec`);
* `pcode`: an integer code of the period a day number lies in, for each group-by setting; it never decreases with
  the day number (`pcode_mono`);
* the period texts determine the period code and vice versa (`ptext_eq_iff`);
* hence at a fixed offset equal period keys are contiguous in instant order (used by `C13.fixed_offset_unchanged`).
-/
namespace Tackler
namespace Time

/-- the local day number brackets the local time -/
theorem localDays_spec (ns off : Int) :
    localDays ns off * 86400000000000 ≤ ns + off * 1000000000 ∧
    ns + off * 1000000000 < (localDays ns off + 1) * 86400000000000 := by
  unfold localDays; omega

/-! ### the day after -/

theorem succ_day (y : Int) (m d : Nat) : daysFromCivil y m (d + 1) = daysFromCivil y m d + 1 := by
  simp only [daysFromCivil]; omega

theorem succ_month (y : Int) (m : Nat) (hm : 1 ≤ m ∧ m < 12) :
    daysFromCivil y (m + 1) 1 = daysFromCivil y m (daysInMonth y m) + 1 := by
  have hcases : m = 1 ∨ m = 2 ∨ m = 3 ∨ m = 4 ∨ m = 5 ∨ m = 6 ∨ m = 7 ∨ m = 8 ∨ m = 9 ∨ m = 10 ∨ m = 11 := by omega
  have hl := isLeap_iff y
  rcases hcases with rfl | rfl | rfl | rfl | rfl | rfl | rfl | rfl | rfl | rfl | rfl
  case inr.inl =>
    cases hleap : isLeap y with
    | true =>
      have := hl.mp hleap
      simp only [daysFromCivil, daysInMonth, hleap]; simp; omega
    | false =>
      have : ¬ ((y % 4 = 0 ∧ y % 100 ≠ 0) ∨ y % 400 = 0) := fun h => by rw [hl.mpr h] at hleap; cases hleap
      simp only [daysFromCivil, daysInMonth, hleap]; simp; omega
  all_goals
    simp only [daysFromCivil, daysInMonth]
    simp <;> omega

theorem succ_year (y : Int) : daysFromCivil (y + 1) 1 1 = daysFromCivil y 12 31 + 1 := by
  simp only [daysFromCivil]; omega

theorem daysInMonth_ge (y : Int) (m : Nat) (hm : 1 ≤ m ∧ m ≤ 12) : 28 ≤ daysInMonth y m ∧ daysInMonth y m ≤ 31 := by
  have hcases : m = 1 ∨ m = 2 ∨ m = 3 ∨ m = 4 ∨ m = 5 ∨ m = 6 ∨ m = 7 ∨ m = 8 ∨ m = 9 ∨ m = 10 ∨ m = 11 ∨
      m = 12 := by omega
  rcases hcases with rfl | rfl | rfl | rfl | rfl | rfl | rfl | rfl | rfl | rfl | rfl | rfl <;>
    simp only [daysInMonth] <;> (try split) <;> omega

/-- the civil date of the next day: the next day of the month, else the first of the next month, else new year -/
theorem civil_succ (z : Int) (y : Int) (m d : Nat) (hc : civilFromDays z = (y, m, d)) :
    civilFromDays (z + 1) =
      if d < daysInMonth y m then (y, m, d + 1) else if m < 12 then (y, m + 1, 1) else (y + 1, 1, 1) := by
  have hr := days_roundtrip z
  rw [hc] at hr
  obtain ⟨hz, hm1, hm12, hd1, hdim⟩ := hr
  simp only at hz hm1 hm12 hd1 hdim
  split
  · rename_i hlt
    rw [← hz, ← succ_day, civil_roundtrip y m (d + 1) ⟨hm1, hm12⟩ ⟨by omega, by omega⟩]
  · rename_i hnlt
    have hd : d = daysInMonth y m := by omega
    split
    · rename_i hm
      have hdim' := daysInMonth_ge y (m + 1) ⟨by omega, by omega⟩
      rw [← hz, hd, ← succ_month y m ⟨hm1, hm⟩, civil_roundtrip y (m + 1) 1 ⟨by omega, by omega⟩ ⟨by omega, by omega⟩]
    · rename_i hm
      have hm' : m = 12 := by omega
      subst hm'
      have hd31 : d = 31 := by rw [hd]; simp [daysInMonth]
      subst hd31
      rw [← hz, ← succ_year, civil_roundtrip (y + 1) 1 1 (by omega) (by simp [daysInMonth])]

/-- the days of a civil year lie between its January 1st and the next -/
theorem year_bounds (z : Int) :
    daysFromCivil (civilFromDays z).1 1 1 ≤ z ∧ z < daysFromCivil ((civilFromDays z).1 + 1) 1 1 := by
  obtain ⟨era, yoe, mp, d, hok, rfl⟩ := exists_build z
  rw [civilFromDays_build era yoe mp d hok]
  obtain ⟨h0, h1, hm0, hm1, hd1, hd, hleap⟩ := hok
  have hcases : mp = 0 ∨ mp = 1 ∨ mp = 2 ∨ mp = 3 ∨ mp = 4 ∨ mp = 5 ∨ mp = 6 ∨ mp = 7 ∨ mp = 8 ∨ mp = 9 ∨
      mp = 10 ∨ mp = 11 := by omega
  rcases hcases with rfl | rfl | rfl | rfl | rfl | rfl | rfl | rfl | rfl | rfl | rfl | rfl
  all_goals
    simp [yearOf, monthOf, buildDays, daysFromCivil]
    constructor <;> omega

/-! ### ISO week dates of day numbers -/

/-- `civil::Date::iso_week_date` as a function of the day number -/
def isoOf (z : Int) : Int × Int × Int := isoWeekOfDays (civilFromDays z).1 z

theorem isoWeekDate_eq_isoOf (z : Int) :
    isoWeekDate (civilFromDays z).1 (civilFromDays z).2.1 (civilFromDays z).2.2 = isoOf z := by
  unfold isoWeekDate isoOf
  rw [(days_roundtrip z).1]

/-- a day lies before the Monday of week 1 of the ISO year after its own -/
theorem isoWeekOfDays_lt_next (year days : Int)
    (hin : daysFromCivil year 1 1 ≤ days ∧ days < daysFromCivil (year + 1) 1 1) :
    days < isoWeekStart ((isoWeekOfDays year days).1 + 1) := by
  have n1 := isoWeekStart_near (year + 1)
  have s1 := isoWeekStart_step (year + 1)
  have e1 : year - 1 + 1 = year := by omega
  simp only [isoWeekOfDays]
  split
  · rw [isoYear_of_start, e1]; assumption
  · split
    · rw [isoYear_of_start]; omega
    · rw [isoYear_of_start]; omega

/-- the ISO week date of a day pinned down: week 1…53, weekday 1…7, the day is the `(weekday − 1)`-th day of the
    `(week − 1)`-th week after the Monday of week 1 of its ISO year, and it lies before the Monday of week 1 of
    the next ISO year -/
theorem isoOf_spec (z : Int) :
    1 ≤ (isoOf z).2.1 ∧ (isoOf z).2.1 ≤ 53 ∧ 1 ≤ (isoOf z).2.2 ∧ (isoOf z).2.2 ≤ 7 ∧
    z = isoWeekStart (isoOf z).1 + ((isoOf z).2.1 - 1) * 7 + ((isoOf z).2.2 - 1) ∧
    z < isoWeekStart ((isoOf z).1 + 1) := by
  have hin := year_bounds z
  obtain ⟨h1, h2, h3, h4, _, h6⟩ := isoWeekOfDays_spec _ z hin
  exact ⟨h1, h2, h3, h4, h6, isoWeekOfDays_lt_next _ z hin⟩

theorem isoWeekStart_mono_nat (y : Int) (n : Nat) : isoWeekStart y ≤ isoWeekStart (y + n) := by
  induction n with
  | zero => simp
  | succ n ih =>
    have := isoWeekStart_step (y + n)
    have e : y + ((n + 1 : Nat) : Int) = y + n + 1 := by omega
    rw [e]; omega

theorem isoWeekStart_mono (y y' : Int) (h : y ≤ y') : isoWeekStart y ≤ isoWeekStart y' := by
  have := isoWeekStart_mono_nat y (y' - y).toNat
  have e : y + ((y' - y).toNat : Int) = y' := by omega
  rwa [e] at this

/-! ### period codes -/

/-- an integer code of the period a day number lies in: the code orders as the periods do -/
def pcode (g : GroupBy) (z : Int) : Int :=
  match g with
  | .year => (civilFromDays z).1
  | .month => (civilFromDays z).1 * 100 + (civilFromDays z).2.1
  | .date => (civilFromDays z).1 * 10000 + (civilFromDays z).2.1 * 100 + (civilFromDays z).2.2
  | .isoWeek => (isoOf z).1 * 100 + (isoOf z).2.1
  | .isoWeekDate => (isoOf z).1 * 1000 + (isoOf z).2.1 * 10 + (isoOf z).2.2

theorem civil_range (z : Int) : 1 ≤ (civilFromDays z).2.1 ∧ (civilFromDays z).2.1 ≤ 12 ∧
    1 ≤ (civilFromDays z).2.2 ∧ (civilFromDays z).2.2 ≤ 31 := by
  obtain ⟨_, h1, h2, h3, h4⟩ := days_roundtrip z
  have := daysInMonth_ge (civilFromDays z).1 (civilFromDays z).2.1 ⟨h1, h2⟩
  omega

theorem pcode_succ (g : GroupBy) (z : Int) : pcode g z ≤ pcode g (z + 1) := by
  cases g with
  | year | month | date =>
    have hr := civil_range z
    have hdim := (days_roundtrip z).2.2.2.2
    simp only [pcode]
    generalize hcz : civilFromDays z = c at *
    obtain ⟨y, m, d⟩ := c
    rw [civil_succ z y m d hcz]
    simp only at hr hdim ⊢
    split
    · simp only; omega
    · split
      · simp only; omega
      · simp only; omega
  | isoWeek | isoWeekDate =>
    obtain ⟨a1, a2, a3, a4, a5, a6⟩ := isoOf_spec z
    obtain ⟨b1, b2, b3, b4, b5, b6⟩ := isoOf_spec (z + 1)
    simp only [pcode]
    generalize (isoOf z).1 = wy at *
    generalize (isoOf z).2.1 = w at *
    generalize (isoOf z).2.2 = wd at *
    generalize (isoOf (z + 1)).1 = wy' at *
    generalize (isoOf (z + 1)).2.1 = w' at *
    generalize (isoOf (z + 1)).2.2 = wd' at *
    -- the ISO year cannot go back, and within one ISO year the week date follows the day
    have hy : wy ≤ wy' := by
      apply Classical.byContradiction
      intro hlt
      have := isoWeekStart_mono (wy' + 1) wy (by omega)
      omega
    rcases Int.lt_or_eq_of_le hy with hlt | heq
    · omega
    · subst heq; omega

theorem pcode_mono_nat (g : GroupBy) (z : Int) (n : Nat) : pcode g z ≤ pcode g (z + n) := by
  induction n with
  | zero => simp
  | succ n ih =>
    have := pcode_succ g (z + n)
    have e : z + ((n + 1 : Nat) : Int) = z + n + 1 := by omega
    rw [e]; omega

/-- **the period code never decreases with the day number** -/
theorem pcode_mono (g : GroupBy) (z z' : Int) (h : z ≤ z') : pcode g z ≤ pcode g z' := by
  have := pcode_mono_nat g z (z' - z).toNat
  have e : z + ((z' - z).toNat : Int) = z' := by omega
  rwa [e] at this

/-! ### period texts -/

/-- the period text of a local day number (what `fmt_year` … `fmt_week_date` print for any instant of that day) -/
def ptext (g : GroupBy) (z : Int) : String :=
  match g with
  | .year => String.ofList (yearText (civilFromDays z).1)
  | .month => String.ofList (yearText (civilFromDays z).1 ++ ['-'] ++ padNat 2 (civilFromDays z).2.1)
  | .date => String.ofList (dateChars (civilFromDays z).1 (civilFromDays z).2.1 (civilFromDays z).2.2)
  | .isoWeek => String.ofList (intText (isoOf z).1 ++ ['-', 'W'] ++ padNat 2 (isoOf z).2.1.toNat)
  | .isoWeekDate =>
    String.ofList (intText (isoOf z).1 ++ ['-', 'W'] ++ padNat 2 (isoOf z).2.1.toNat ++ ['-'] ++ intText (isoOf z).2.2)

/-- the period text of an instant at an offset is the period text of its local day number -/
theorem periodText_eq (g : GroupBy) (ns off : Int) : periodText g ns off = ptext g (localDays ns off) := by
  have hd := civilAt_date ns off
  have hi := isoWeekDate_eq_isoOf (localDays ns off)
  rw [← hd] at hi
  simp only at hi
  cases g <;> simp only [periodText, ptext, fmtYear, fmtMonth, fmtDate, fmtIsoWeek, fmtIsoWeekDate]
  · rw [← hd]
  · rw [← hd]
  · rw [← hd]
  · rw [hi]
  · rw [hi]

theorem digitsVal_ofDigitChars (l : List Char) : Dec.digitsVal l = Nat.ofDigitChars 10 l 0 := by
  unfold Dec.digitsVal Nat.ofDigitChars Dec.digitVal
  congr 1; funext acc c; rw [Nat.mul_comm]

theorem digitsVal_padNat (w n : Nat) : Dec.digitsVal (padNat w n) = n := by
  unfold padNat Dec.padLeft
  rw [digitsVal_ofDigitChars, Nat.ofDigitChars_append, Nat.ofDigitChars_replicate_zero]
  simp [Nat.ofDigitChars_ten_toDigits]

theorem padNat_inj (w a b : Nat) (h : padNat w a = padNat w b) : a = b := by
  rw [← digitsVal_padNat w a, ← digitsVal_padNat w b, h]

theorem padNat_isDigit (w n : Nat) : ∀ c ∈ padNat w n, c.isDigit = true := by
  intro c hc
  unfold padNat Dec.padLeft at hc
  rcases List.mem_append.mp hc with h | h
  · rw [(List.mem_replicate.mp h).2]; decide
  · exact Nat.isDigit_of_mem_toDigits (by decide) (by decide) h

theorem padNat2_length (n : Nat) (h : n < 100) : (padNat 2 n).length = 2 := by
  have h1 : (Nat.toDigits 10 n).length ≤ 2 := (Nat.length_toDigits_le_iff (by decide) (by decide)).mpr h
  have h2 : 0 < (Nat.toDigits 10 n).length := Nat.length_toDigits_pos
  unfold padNat Dec.padLeft
  rw [List.length_append, List.length_replicate]; omega

theorem toDigits_inj (a b : Nat) (h : Nat.toDigits 10 a = Nat.toDigits 10 b) : a = b := by
  rw [← Nat.ofDigitChars_ten_toDigits (n := a), ← Nat.ofDigitChars_ten_toDigits (n := b), h]

theorem minus_not_digit (l : List Char) (h : ∀ c ∈ l, c.isDigit = true) (r : List Char) : l ≠ '-' :: r := by
  intro e
  have := h '-' (by rw [e]; exact List.mem_cons_self)
  exact absurd this (by decide)

theorem yearText_inj (y y' : Int) (h : yearText y = yearText y') : y = y' := by
  unfold yearText at h
  split at h <;> split at h
  · have := padNat_inj 4 _ _ (List.cons.inj h).2; omega
  · exact absurd h.symm (minus_not_digit _ (padNat_isDigit 4 _) _)
  · exact absurd h (minus_not_digit _ (padNat_isDigit 4 _) _)
  · have := padNat_inj 4 _ _ h; omega

theorem intText_inj (y y' : Int) (h : intText y = intText y') : y = y' := by
  have hd : ∀ n, ∀ c ∈ Nat.toDigits 10 n, c.isDigit = true :=
    fun n c hc => Nat.isDigit_of_mem_toDigits (by decide) (by decide) hc
  unfold intText at h
  split at h <;> split at h
  · have := toDigits_inj _ _ (List.cons.inj h).2; omega
  · exact absurd h.symm (minus_not_digit _ (hd _) _)
  · exact absurd h (minus_not_digit _ (hd _) _)
  · have := toDigits_inj _ _ h; omega

theorem intText_digit_length (wd : Int) (h : 0 ≤ wd ∧ wd ≤ 9) : (intText wd).length = 1 := by
  unfold intText
  have : ¬ wd < 0 := by omega
  simp only [this, if_false]
  have h1 : (Nat.toDigits 10 wd.toNat).length ≤ 1 :=
    (Nat.length_toDigits_le_iff (by decide) (by decide)).mpr (by omega)
  have h2 : 0 < (Nat.toDigits 10 wd.toNat).length := Nat.length_toDigits_pos
  omega

/-- `a ++ [c] ++ p` with a suffix `p` of known length splits uniquely -/
theorem sep_inj (a a' : List Char) (c : Char) (p p' : List Char) (h : a ++ [c] ++ p = a' ++ [c] ++ p')
    (hl : p.length = p'.length) : a = a' ∧ p = p' := by
  obtain ⟨h1, h2⟩ := List.append_inj' h hl
  exact ⟨(List.append_inj' h1 rfl).1, h2⟩

/-- **the period text determines the period** -/
theorem ptext_inj (g : GroupBy) (z z' : Int) (h : ptext g z = ptext g z') : pcode g z = pcode g z' := by
  have r := civil_range z
  have r' := civil_range z'
  have i := isoOf_spec z
  have i' := isoOf_spec z'
  cases g <;> simp only [ptext, String.ofList_inj] at h <;> simp only [pcode]
  · rw [yearText_inj _ _ h]
  · obtain ⟨h1, h2⟩ := sep_inj _ _ _ _ _ h (by rw [padNat2_length _ (by omega), padNat2_length _ (by omega)])
    have := padNat_inj 2 _ _ h2
    rw [yearText_inj _ _ h1]; omega
  · unfold dateChars at h
    obtain ⟨h1, h2⟩ := sep_inj _ _ _ _ _ h (by rw [padNat2_length _ (by omega), padNat2_length _ (by omega)])
    obtain ⟨h3, h4⟩ := sep_inj _ _ _ _ _ h1 (by rw [padNat2_length _ (by omega), padNat2_length _ (by omega)])
    have := padNat_inj 2 _ _ h2
    have := padNat_inj 2 _ _ h4
    rw [yearText_inj _ _ h3]; omega
  · have e : ∀ (a p : List Char), a ++ ['-', 'W'] ++ p = (a ++ ['-']) ++ ['W'] ++ p := by intro a p; simp
    rw [e, e] at h
    obtain ⟨h1, h2⟩ := sep_inj _ _ _ _ _ h (by rw [padNat2_length _ (by omega), padNat2_length _ (by omega)])
    have h3 := (List.append_inj' h1 rfl).1
    have := padNat_inj 2 _ _ h2
    rw [intText_inj _ _ h3]; omega
  · have e : ∀ (a p q : List Char), a ++ ['-', 'W'] ++ p ++ ['-'] ++ q = ((a ++ ['-']) ++ ['W'] ++ p) ++ ['-'] ++ q := by
      intro a p q; simp
    rw [e, e] at h
    obtain ⟨h1, h2⟩ := sep_inj _ _ _ _ _ h (by
      rw [intText_digit_length _ (by omega), intText_digit_length _ (by omega)])
    obtain ⟨h3, h4⟩ := sep_inj _ _ _ _ _ h1 (by rw [padNat2_length _ (by omega), padNat2_length _ (by omega)])
    have h5 := (List.append_inj' h3 rfl).1
    have := padNat_inj 2 _ _ h4
    rw [intText_inj _ _ h5, intText_inj _ _ h2]; omega

/-- … and the period determines its text -/
theorem ptext_of_pcode (g : GroupBy) (z z' : Int) (h : pcode g z = pcode g z') : ptext g z = ptext g z' := by
  have r := civil_range z
  have r' := civil_range z'
  have i := isoOf_spec z
  have i' := isoOf_spec z'
  cases g <;> simp only [pcode] at h <;> simp only [ptext]
  · rw [h]
  · have h1 : (civilFromDays z).1 = (civilFromDays z').1 := by omega
    have h2 : (civilFromDays z).2.1 = (civilFromDays z').2.1 := by omega
    rw [h1, h2]
  · have h1 : (civilFromDays z).1 = (civilFromDays z').1 := by omega
    have h2 : (civilFromDays z).2.1 = (civilFromDays z').2.1 := by omega
    have h3 : (civilFromDays z).2.2 = (civilFromDays z').2.2 := by omega
    rw [h1, h2, h3]
  · have h1 : (isoOf z).1 = (isoOf z').1 := by omega
    have h2 : (isoOf z).2.1 = (isoOf z').2.1 := by omega
    rw [h1, h2]
  · have h1 : (isoOf z).1 = (isoOf z').1 := by omega
    have h2 : (isoOf z).2.1 = (isoOf z').2.1 := by omega
    have h3 : (isoOf z).2.2 = (isoOf z').2.2 := by omega
    rw [h1, h2, h3]

theorem ptext_eq_iff (g : GroupBy) (z z' : Int) : ptext g z = ptext g z' ↔ pcode g z = pcode g z' :=
  ⟨ptext_inj g z z', ptext_of_pcode g z z'⟩

end Time
end Tackler

import TacklerModel.Model.Hash
/-!
# Known-answer tests of `Model/Hash`

The one-block example messages of FIPS 180-4 and FIPS 202 (`"abc"`, the empty message) are checked by
kernel evaluation (`decide +kernel`: definitional unfolding only, no compiler trust, no extra axiom);
the multi-block examples (448-bit and 896-bit messages, the 1600-bit message `0xa3 × 200` of FIPS 202) are
checked with `#guard` at build time.  Larger, random comparisons with `sha2`/`sha3` and `hashlib` are
made by the correspondence check on every run (op `hash`).
-/
namespace Tackler
namespace Hash

def abc : Bytes := [0x61, 0x62, 0x63]

theorem sha256_abc : hexChars (sha256 abc) =
    "ba7816bf8f01cfea414140de5dae2223b00361a396177a9cb410ff61f20015ad".toList := by decide +kernel

theorem sha256_empty : hexChars (sha256 []) =
    "e3b0c44298fc1c149afbf4c8996fb92427ae41e4649b934ca495991b7852b855".toList := by decide +kernel

theorem sha512_abc : hexChars (sha512 abc) =
    "ddaf35a193617abacc417349ae20413112e6fa4e89a97ea20a9eeee64b55d39a2192992a274fc1a836ba3c23a3feebbd454d4423643ce80e2a9ac94fa54ca49f".toList := by
  decide +kernel

theorem sha512_256_abc : hexChars (sha512_256 abc) =
    "53048e2681941ef99b2e29b76b4c7dabe4c2d0c634fc6d46e0e2f13107e7af23".toList := by decide +kernel

theorem sha3_256_abc : hexChars (sha3_256 abc) =
    "3a985da74fe225b2045c172d6bd390bd855f086e3e9d525b46bfe24511431532".toList := by decide +kernel

theorem sha3_512_abc : hexChars (sha3_512 abc) =
    "b751850b1a57168a5693cd924b6b096e08f621827444f70d884f5d0240d2712e10e116e9192af3c91a7ec57647e3934057340b4cf408d5a56592f8274eec53f0".toList := by
  decide +kernel

/-! multi-block and further vectors, evaluated at build time -/

def m448 : Bytes := "abcdbcdecdefdefgefghfghighijhijkijkljklmklmnlmnomnopnopq".toUTF8.data.toList
def m896 : Bytes :=
  "abcdefghbcdefghicdefghijdefghijkefghijklfghijklmghijklmnhijklmnoijklmnopjklmnopqklmnopqrlmnopqrsmnopqrstnopqrstu".toUTF8.data.toList
def a3x200 : Bytes := List.replicate 200 0xa3

#guard hex (sha256 m448) = "248d6a61d20638b8e5c026930c3e6039a33ce45964ff2167f6ecedd419db06c1"
#guard hex (sha512 m896) = "8e959b75dae313da8cf4f72814fc143f8f7779c6eb9f7fa17299aeadb6889018501d289e4900f7e4331b99dec4b5433ac7d329eeb6dd26545e96e55b874be909"
#guard hex (sha512_256 m896) = "3928e184fb8690f840da3988121d31be65cb9d3ef83ee6146feac861e19b563a"
#guard hex (sha512 []) = "cf83e1357eefb8bdf1542850d66d8007d620e4050b5715dc83f4a921d36ce9ce47d0d13c5d85f2b0ff8318d2877eec2f63b931bd47417a81a538327af927da3e"
#guard hex (sha512_256 []) = "c672b8d1ef56ed28ab87c3622c5114069bdd3ad7b8f9737498d0c01ecef0967a"
#guard hex (sha3_256 []) = "a7ffc6f8bf1ed76651c14756a061d662f580ff4de43b49fa82d80a4b80f8434a"
#guard hex (sha3_512 []) = "a69f73cca23a9ac5c8b567dc185a756e97c982164fe25859e0d1dcc1475c80a615b2123af1f5f94c11e3e9402c3ac558f500199d95b6d3e301758586281dcd26"
#guard hex (sha3_256 a3x200) = "79f38adec5c20307a98ef76e8324afbfd46cfd81b22e3973c65fa1bd9de31787"
#guard hex (sha3_512 a3x200) = "e76dfad22084a8b1467fcf2ffa58361bec7628edf5f3fdc0e4805dc48caeeca81b7c13c30adf52a3659584739a2df46be589c51ca1a4a8416df6545a1ce8ba00"

/-- the vector of the unit tests in `tackler-core/src/kernel/hash.rs` (`hasher_sha2_256`): three UUIDs, in
    the order given, each followed by `"\n"` -/
theorem checksum_repo_vector :
    checksum .sha256 ["9c123cbe-4acd-475d-bbcf-96c1fcba58cb", "2e546b18-6ce6-4bb3-9f4b-21b77a768a4c",
      "67bdab27-da08-4647-b0d1-57c9ed129657"] [0x0a] =
    ⟨"SHA-256", "16418783ef294f830721159ee59cc3388c8b69c13afba2256cf756c6097fe687"⟩ := by decide +kernel

end Hash
end Tackler

import TacklerModel.Model.Dec
/-! Value-layer lemmas for `Dec` (core Lean only). -/
namespace Tackler
namespace Dec

theorem units_zero (x : Dec) (h : x.isZero = true) : x.units = 0 := by
  simp [isZero] at h; simp [units, h]

theorem pow_split (s k : Nat) (h1 : k ≤ s) (h2 : s ≤ 28) :
    (10:Int) ^ (s - k) * (10:Int) ^ (28 - s) = (10:Int) ^ (28 - k) := by
  rw [← Int.pow_add]; congr 1; omega

theorem sgn_natAbs (z : Int) : sgn (decide (z < 0)) * (z.natAbs : Int) = z := by
  unfold sgn
  by_cases h : z < 0
  · simp [h]; omega
  · simp [h]; omega

/-- `add` is exact on the value layer and keeps the scale bound -/
theorem add_units (a b r : Dec) (ha : a.scale ≤ 28) (hb : b.scale ≤ 28)
    (h : add a b = some r) : r.units = a.units + b.units ∧ r.scale ≤ 28 := by
  unfold add at h
  split at h
  · rename_i hz; cases h; simp [units_zero a hz, hb]
  · split at h
    · rename_i _ hz; cases h; simp [units_zero b hz, ha]
    · simp only at h
      split at h
      · cases h
        refine ⟨?_, by simp; omega⟩
        simp only [units]
        rw [sgn_natAbs]
        have hs : max a.scale b.scale ≤ 28 := by omega
        have e1 := pow_split (max a.scale b.scale) a.scale (by omega) hs
        have e2 := pow_split (max a.scale b.scale) b.scale (by omega) hs
        rw [Int.add_mul]
        simp only [Int.natCast_mul, Int.natCast_pow, Int.mul_assoc]
        rw [← e1, ← e2]
        simp
      · cases h

theorem add_coeff (a b r : Dec) (ha : a.coeff ≤ max96) (hb : b.coeff ≤ max96)
    (h : add a b = some r) : r.coeff ≤ max96 := by
  unfold add at h
  split at h
  · cases h; exact hb
  · split at h
    · cases h; exact ha
    · simp only at h
      split at h
      · rename_i hz; cases h; exact hz
      · cases h

theorem units_ne_zero (x : Dec) (h : x.isZero = false) : x.units ≠ 0 := by
  have hc : x.coeff ≠ 0 := by simpa [isZero] using h
  unfold units sgn
  have hp : (10:Int) ^ (28 - x.scale) ≠ 0 := by
    apply Int.pow_ne_zero; decide
  cases x.neg <;> simp [hp] <;> exact hc

theorem isZero_iff_units (x : Dec) : x.isZero = true ↔ x.units = 0 := by
  constructor
  · exact units_zero x
  · intro h
    cases hz : x.isZero with
    | true => rfl
    | false => exact absurd h (units_ne_zero x hz)

theorem negate_units (x : Dec) : x.negate.units = - x.units := by
  unfold negate units sgn
  cases x.neg <;> simp [Int.neg_mul]

@[simp] theorem negate_scale (x : Dec) : x.negate.scale = x.scale := rfl
@[simp] theorem negate_coeff (x : Dec) : x.negate.coeff = x.coeff := rfl
@[simp] theorem negate_isZero (x : Dec) : x.negate.isZero = x.isZero := rfl

theorem zero_units : zero.units = 0 := by simp [zero, units]

/-- `mul` is exact: units(r)·10²⁸ = units(a)·units(b) -/
theorem mul_units (a b r : Dec) (h : mul a b = some r) :
    r.units * (10:Int)^28 = a.units * b.units ∧ r.scale ≤ 28 := by
  unfold mul at h
  split at h
  · rename_i hz
    cases h
    simp only [Bool.or_eq_true] at hz
    rcases hz with hz | hz
    · rw [zero_units, units_zero a hz]; simp [zero]
    · rw [zero_units, units_zero b hz]; simp [zero]
  · split at h
    · rename_i hfit
      cases h
      refine ⟨?_, hfit.1⟩
      simp only [units]
      have hs : a.scale + b.scale ≤ 28 := hfit.1
      have e : (10:Int)^(28 - (a.scale + b.scale)) * (10:Int)^28
             = (10:Int)^(28 - a.scale) * (10:Int)^(28 - b.scale) := by
        rw [← Int.pow_add, ← Int.pow_add]; congr 1; omega
      have hsg : sgn (a.neg != b.neg) = sgn a.neg * sgn b.neg := by
        unfold sgn; cases a.neg <;> cases b.neg <;> simp
      rw [hsg, Int.natCast_mul]
      calc sgn a.neg * sgn b.neg * ((a.coeff:Int) * (b.coeff:Int)) * (10:Int)^(28 - (a.scale + b.scale)) * (10:Int)^28
          = sgn a.neg * sgn b.neg * ((a.coeff:Int) * (b.coeff:Int)) * ((10:Int)^(28 - (a.scale + b.scale)) * (10:Int)^28) := by
            rw [Int.mul_assoc]
        _ = sgn a.neg * sgn b.neg * ((a.coeff:Int) * (b.coeff:Int)) * ((10:Int)^(28 - a.scale) * (10:Int)^(28 - b.scale)) := by rw [e]
        _ = sgn a.neg * (a.coeff:Int) * (10:Int)^(28 - a.scale) * (sgn b.neg * (b.coeff:Int) * (10:Int)^(28 - b.scale)) := by
            simp only [Int.mul_assoc, Int.mul_left_comm, Int.mul_comm]
    · cases h

theorem sumFrom_units : ∀ (l : List Dec) (acc s : Dec), acc.scale ≤ 28 → (∀ d ∈ l, d.scale ≤ 28) →
    sumFrom acc l = some s → s.units = acc.units + (l.map units).sum ∧ s.scale ≤ 28 := by
  intro l
  induction l with
  | nil => intro acc s ha _ h; simp [sumFrom] at h; subst h; simp [ha]
  | cons d t ih =>
    intro acc s ha hl h
    simp only [sumFrom] at h
    split at h
    · rename_i s' hs'
      have h1 := add_units acc d s' ha (hl d List.mem_cons_self) hs'
      have h2 := ih s' s h1.2 (fun x hx => hl x (List.mem_cons_of_mem _ hx)) h
      refine ⟨?_, h2.2⟩
      rw [h2.1, h1.1]; simp [Int.add_assoc]
    · cases h

/-- `sum` is the exact sum of the values -/
theorem sum_units (l : List Dec) (s : Dec) (hl : ∀ d ∈ l, d.scale ≤ 28) (h : sum l = some s) :
    s.units = (l.map units).sum ∧ s.scale ≤ 28 := by
  have := sumFrom_units l zero s (by simp [zero]) hl h
  simpa [zero_units] using this

end Dec
end Tackler

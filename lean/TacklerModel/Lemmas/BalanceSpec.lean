import TacklerModel.Lemmas.TreeNodes
/-! `balance` as a whole: the rows are a permutation of the completed entry list (account sums + zero gap
    entries), strictly sorted by `keyLt`, each with tree sum = sum of the own sums at or below it. -/
namespace Tackler
namespace C02

open KeyOrder ListSum

theorem ctree_of_complete (posts : List BPost) (sums C : List (AKey × Dec))
    (hA : AccSpec posts sums) (hB : CompleteSpec sums C) : CTree C := by
  refine ⟨nodup_of_pairwise_keyLt _ hB.sorted, ?_, ?_, ?_⟩
  · intro x hx
    obtain ⟨s, _, _, h2, _⟩ := (hB.keys x.1).mp (List.mem_map.mpr ⟨x, hx, rfl⟩)
    exact h2
  · intro x hx q hq hpre
    obtain ⟨s, hs, h1, _, h3⟩ := (hB.keys x.1).mp (List.mem_map.mpr ⟨x, hx, rfl⟩)
    exact (hB.keys (x.1.1, q)).mpr ⟨s, hs, h1, hq, hpre.trans h3⟩
  · intro x hx
    rcases hB.mem x hx with h | ⟨h, _⟩
    · exact (hA.sum x h).2
    · rw [h]; simp [Dec.zero]

/-- keys of the completed list are in play: prefixes of posted paths -/
theorem complete_inplay (posts : List BPost) (sums C : List (AKey × Dec))
    (hA : AccSpec posts sums) (hB : CompleteSpec sums C) (k : AKey) :
    k ∈ C.map (·.1) ↔ InPlay posts k := by
  rw [hB.keys k]
  constructor
  · intro ⟨s, hs, h1, h2, h3⟩
    obtain ⟨p, hp, hpk⟩ := (hA.keys s.1).mp (List.mem_map.mpr ⟨s, hs, rfl⟩)
    have e1 : p.comm = s.1.1 := by rw [← hpk]; rfl
    have e2 : p.acct = s.1.2 := by rw [← hpk]; rfl
    exact ⟨p, hp, by rw [e1]; exact h1, h2, by rw [e2]; exact h3⟩
  · intro ⟨p, hp, h1, h2, h3⟩
    obtain ⟨s, hs, hsk⟩ := List.mem_map.mp ((hA.keys p.key).mpr ⟨p, hp, rfl⟩)
    have e1 : s.1.1 = p.comm := by rw [hsk]; rfl
    have e2 : s.1.2 = p.acct := by rw [hsk]; rfl
    exact ⟨s, hs, by rw [e1]; exact h1, h2, by rw [e2]; exact h3⟩

structure BalSpec (C : List (AKey × Dec)) (bal : List BalRow) : Prop where
  perm : (bal.map kv).Perm C
  sorted : (bal.map (·.key)).Pairwise (fun a b => keyLt a b = true)
  tree : ∀ r ∈ bal, r.tree.units = descSum C r.key

/-- everything `balance` computed on the way, with its specification -/
theorem balance_spec (st : Settings) (posts : List BPost) (hwf : PostsWF posts) (bal : List BalRow)
    (h : balance st posts = .ok bal) :
    ∃ sums C, AccSpec posts sums ∧ CompleteSpec sums C ∧ CTree C ∧ BalSpec C bal := by
  unfold balance at h
  split at h
  · cases h
  · rename_i sums hsums
    split at h
    · cases h
    · cases h
    · rename_i C hCt
      split at h
      · cases h
      · rename_i all hall
        cases h
        have hA := accountSums_spec posts hwf sums hsums
        have hB := completeTree_spec st posts hwf sums C hA hCt
        have hC := ctree_of_complete posts sums C hA hB
        have hCnd : C.Nodup := nodup_of_keys_nodup hC.nodup
        refine ⟨sums, C, hA, hB, hC, ?_⟩
        obtain ⟨hsome, halleq⟩ := flattenOpt_map (treeNodes C (maxDepth C + 1)) _ all hall
        generalize hr : C.filter (fun s => s.1.2.length == 1) = roots at hsome halleq
        let g : AKey × Dec → List BalRow := fun c => (treeNodes C (maxDepth C + 1) c).getD []
        have hroot : ∀ c ∈ roots, c ∈ C ∧ c.1.2.length = 1 ∧ SubtreeSpec C c (g c) := by
          intro c hc
          obtain ⟨l, hl⟩ := hsome c hc
          rw [← hr] at hc
          obtain ⟨hcC, hlen⟩ := List.mem_filter.mp hc
          have : g c = l := by simp [g, hl]
          exact ⟨hcC, by simpa using hlen, by rw [this]; exact treeNodes_spec hC _ c l hcC hl⟩
        have hall' : all = (roots.map g).flatten := halleq
        have hkvall : all.map kv = (roots.map (fun c => (g c).map kv)).flatten := by
          rw [hall', List.map_flatten, List.map_map]; rfl
        have hmemc : ∀ c ∈ roots, ∀ x, x ∈ (g c).map kv ↔ x ∈ C ∧ desc c.1 x.1 = true := by
          intro c hc x
          rw [(hroot c hc).2.2.perm.mem_iff, List.mem_filter]
        have hrnd : roots.Nodup := by rw [← hr]; exact hCnd.sublist List.filter_sublist
        have hpermall : (all.map kv).Perm C := by
          apply (List.perm_ext_iff_of_nodup ?_ hCnd).mpr
          · intro x
            rw [hkvall]
            constructor
            · intro hx
              obtain ⟨l, hl, hxl⟩ := List.mem_flatten.mp hx
              obtain ⟨c, hc, rfl⟩ := List.mem_map.mp hl
              exact ((hmemc c hc x).mp hxl).1
            · intro hxC
              have hne := hC.nonempty x hxC
              have hlen : 1 ≤ x.1.2.length := by
                cases hx : x.1.2 with
                | nil => exact absurd hx hne
                | cons _ _ => simp
              obtain ⟨c, hcC, hck⟩ := anc_at hC x hxC 1 (by omega) hlen
              have hc2 : c.1.2 = x.1.2.take 1 := by rw [hck]
              have hcl : c.1.2.length = 1 := by rw [hc2, List.length_take]; omega
              have hcr : c ∈ roots := by
                rw [← hr]; exact List.mem_filter.mpr ⟨hcC, by simp [hcl]⟩
              have hcd : desc c.1 x.1 = true := by
                rw [desc_iff]; exact ⟨by rw [hck], by rw [hc2]; exact List.take_prefix _ _⟩
              exact List.mem_flatten.mpr ⟨(g c).map kv, List.mem_map.mpr ⟨c, hcr, rfl⟩,
                (hmemc c hcr x).mpr ⟨hxC, hcd⟩⟩
          · rw [hkvall]
            apply nodup_flatten_map (fun c => (g c).map kv) roots hrnd
            · intro c hc
              exact ((hroot c hc).2.2.perm.nodup_iff).mpr (hCnd.sublist List.filter_sublist)
            · intro c hc c' hc' hne x hx hx'
              obtain ⟨_, hd1⟩ := (hmemc c hc x).mp hx
              obtain ⟨_, hd2⟩ := (hmemc c' hc' x).mp hx'
              obtain ⟨hcC, l1, _⟩ := hroot c hc
              obtain ⟨hcC', l2, _⟩ := hroot c' hc'
              exact hne (anc_unique hC c c' hcC hcC' x.1 hd1 hd2 (by omega))
        have hbperm : (all.mergeSort (fun a b => keyLe a.key b.key)).Perm all := List.mergeSort_perm _ _
        have hperm : ((all.mergeSort (fun a b => keyLe a.key b.key)).map kv).Perm C :=
          (hbperm.map kv).trans hpermall
        refine ⟨hperm, ?_, ?_⟩
        · -- strictly sorted
          have hpw : (all.mergeSort (fun a b => keyLe a.key b.key)).Pairwise
              (fun a b => keyLe a.key b.key = true) :=
            List.pairwise_mergeSort (le := fun a b : BalRow => keyLe a.key b.key)
              (fun a b c => keyLe_trans a.key b.key c.key) (fun a b => keyLe_total a.key b.key) all
          have hknd : ((all.mergeSort (fun a b => keyLe a.key b.key)).map (·.key)).Nodup := by
            have : ((all.mergeSort (fun a b => keyLe a.key b.key)).map kv).map (·.1)
                = (all.mergeSort (fun a b => keyLe a.key b.key)).map (·.key) := by
              rw [List.map_map]; rfl
            rw [← this]
            exact ((hperm.map (·.1)).nodup_iff).mpr hC.nodup
          rw [List.pairwise_map]
          have hne : (all.mergeSort (fun a b => keyLe a.key b.key)).Pairwise (fun a b => a.key ≠ b.key) := by
            have := hknd
            unfold List.Nodup at this
            rwa [List.pairwise_map] at this
          apply List.Pairwise.imp_of_mem _ (hpw.and hne)
          intro a b ha hb ⟨hle, hab⟩
          apply keyLt_of_le_of_ne _ _ hle
          intro hnk
          have hplay : ∀ r ∈ all.mergeSort (fun a b => keyLe a.key b.key), ∃ y ∈ posts, r.key.2 <+: y.acct := by
            intro r hr
            have : kv r ∈ C := hperm.mem_iff.mp (List.mem_map.mpr ⟨r, hr, rfl⟩)
            obtain ⟨p, hp, _, _, h3⟩ := (complete_inplay posts sums C hA hB r.key).mp
              (List.mem_map.mpr ⟨kv r, this, rfl⟩)
            exact ⟨p, hp, h3⟩
          exact hab (key_eq_of_nk posts hwf a.key b.key (hplay a ha) (hplay b hb) hnk)
        · intro r hr
          have hrall : r ∈ all := hbperm.mem_iff.mp hr
          rw [hall'] at hrall
          obtain ⟨l, hl, hrl⟩ := List.mem_flatten.mp hrall
          obtain ⟨c, hc, rfl⟩ := List.mem_map.mp hl
          exact ((hroot c hc).2.2.tree r hrl).1

end C02
end Tackler

import TacklerModel.Model.Regex
/-!
# Lemmas about `Model/Regex.lean`

* `Matches.le`                 – matches stay inside the haystack
* `mem_run`                    – the end-position matcher computes exactly the relation `Matches`
* `search_iff`, `full_iff`     – executable matcher vs declarative semantics
* `wrapAst_isMatch`            – `^(?:r)$` under search = whole-haystack match of `r`
* `matches_lits`, `lits_full`, `lits_isMatch` – literal patterns
* `lexRun_append`, `pRun_append`, `pRun_lift` – the parser is a fold; a run above a stack base
* `parseChars_wrap`            – `parse (^(?:p)$) = wrapAst (parse p)`
* `parseChars_lits`            – a pattern without metacharacters is the literal pattern
* `peelChars_wrapChars`        – `peel (wrap p) = p`
-/
namespace Tackler
namespace Regex

/-! ### position sets -/

theorem mem_uni {a b : List Nat} {x : Nat} : x ∈ uni a b ↔ x ∈ a ∨ x ∈ b := by
  unfold uni
  simp only [List.mem_append, List.mem_filter]
  constructor
  · rintro (h | ⟨h, _⟩)
    · exact Or.inl h
    · exact Or.inr h
  · rintro (h | h)
    · exact Or.inl h
    · by_cases ha : x ∈ a
      · exact Or.inl ha
      · right
        refine ⟨h, ?_⟩
        simp [ha]

theorem mem_stepChr {p : CPred} {s : List Char} {S : List Nat} {j : Nat} :
    j ∈ stepChr p s S ↔ ∃ i ∈ S, ∃ c, s[i]? = some c ∧ p.test c = true ∧ j = i + 1 := by
  unfold stepChr
  simp only [List.mem_filterMap]
  constructor
  · rintro ⟨i, hi, h⟩
    split at h
    · rename_i c hc
      split at h
      · rename_i hp
        cases h
        exact ⟨i, hi, c, hc, hp, rfl⟩
      · cases h
    · cases h
  · rintro ⟨i, hi, c, hc, hp, rfl⟩
    exact ⟨i, hi, by simp [hc, hp]⟩

/-! ### the relation -/

theorem Matches.le {s : List Char} {r : Regex} {i j : Nat} (h : Matches s r i j) : i ≤ j ∧ j ≤ s.length := by
  induction h with
  | eps i hi => exact ⟨Nat.le_refl _, hi⟩
  | chr p i c hc _ =>
    obtain ⟨hlt, _⟩ := List.getElem?_eq_some_iff.mp hc
    exact ⟨Nat.le_succ _, hlt⟩
  | seq _ _ ih1 ih2 => exact ⟨Nat.le_trans ih1.1 ih2.1, ih2.2⟩
  | altL _ ih => exact ih
  | altR _ ih => exact ih
  | star0 i hi => exact ⟨Nat.le_refl _, hi⟩
  | starS _ _ ih1 ih2 => exact ⟨Nat.le_trans ih1.1 ih2.1, ih2.2⟩
  | group _ ih => exact ih
  | bol => exact ⟨Nat.le_refl _, Nat.zero_le _⟩
  | eol => exact ⟨Nat.le_refl _, Nat.le_refl _⟩

theorem Matches.start_le {s : List Char} {r : Regex} {i j : Nat} (h : Matches s r i j) : i ≤ s.length :=
  Nat.le_trans h.le.1 h.le.2

/-- one more iteration at the end of a star match -/
theorem Matches.star_snoc {s : List Char} {a : Regex} {i k j : Nat}
    (h1 : Matches s (.star a) i k) (h2 : Matches s a k j) : Matches s (.star a) i j := by
  generalize hr : Regex.star a = r at h1
  revert h2
  induction h1 with
  | star0 i hi =>
    intro h2
    cases hr
    exact .starS h2 (.star0 _ h2.le.2)
  | starS h h' _ ih2 =>
    intro h2
    cases hr
    exact .starS h (ih2 rfl h2)
  | eps => cases hr
  | chr => cases hr
  | seq => cases hr
  | altL => cases hr
  | altR => cases hr
  | group => cases hr
  | bol => cases hr
  | eol => cases hr

/-! ### the star sweep -/

theorem starLoop_sub (step : Nat → List Nat) :
    ∀ (f pos : Nat) (acc : List Nat) (x : Nat), x ∈ acc → x ∈ starLoop step f pos acc := by
  intro f
  induction f with
  | zero => intro pos acc x h; simpa [starLoop] using h
  | succ f ih =>
    intro pos acc x h
    simp only [starLoop]
    apply ih
    split
    · exact mem_uni.mpr (Or.inl h)
    · exact h

theorem starLoop_sound (step : Nat → List Nat) (Q : Nat → Prop)
    (hstep : ∀ k x, Q k → x ∈ step k → k < x → Q x) :
    ∀ (f pos : Nat) (acc : List Nat), (∀ x ∈ acc, Q x) → ∀ x ∈ starLoop step f pos acc, Q x := by
  intro f
  induction f with
  | zero => intro pos acc h x hx; exact h x (by simpa [starLoop] using hx)
  | succ f ih =>
    intro pos acc h x hx
    simp only [starLoop] at hx
    refine ih (pos + 1) _ ?_ x hx
    intro y hy
    split at hy
    · rename_i hc
      rcases mem_uni.mp hy with hy | hy
      · exact h y hy
      · simp only [List.mem_filter, decide_eq_true_eq] at hy
        exact hstep pos y (h pos (List.contains_iff_mem.mp hc)) hy.1 hy.2
    · exact h y hy

/-- after the sweep the set is closed under progress-making steps from every swept position -/
theorem starLoop_closed (step : Nat → List Nat) :
    ∀ (f pos : Nat) (acc : List Nat),
      (∀ k ∈ acc, k < pos → ∀ x ∈ step k, k < x → x ∈ acc) →
      ∀ k ∈ starLoop step f pos acc, k < pos + f → ∀ x ∈ step k, k < x → x ∈ starLoop step f pos acc := by
  intro f
  induction f with
  | zero =>
    intro pos acc h k hk hlt x hx hkx
    simp only [starLoop] at hk ⊢
    exact h k hk (by omega) x hx hkx
  | succ f ih =>
    intro pos acc h k hk hlt x hx hkx
    simp only [starLoop] at hk ⊢
    refine ih (pos + 1) _ ?_ k hk (by omega) x hx hkx
    intro k' hk' hlt' x' hx' hkx'
    by_cases hc : acc.contains pos = true
    · simp only [hc, if_true] at hk' ⊢
      rcases mem_uni.mp hk' with hk' | hk'
      · by_cases hp : k' < pos
        · exact mem_uni.mpr (Or.inl (h k' hk' hp x' hx' hkx'))
        · have : k' = pos := by omega
          subst this
          exact mem_uni.mpr (Or.inr (by simp [List.mem_filter, hx', hkx']))
      · simp only [List.mem_filter, decide_eq_true_eq] at hk'
        omega
    · simp only [hc] at hk' ⊢
      have hne : k' ≠ pos := by
        intro e
        subst e
        exact hc (List.contains_iff_mem.mpr hk')
      exact h k' hk' (by omega) x' hx' hkx'

/-- a set that is closed under progress-making iterations of `a` contains every star end point -/
theorem star_closed_mem {s : List Char} {a : Regex} (res : List Nat)
    (hclosed : ∀ k ∈ res, k < s.length + 1 → ∀ x, Matches s a k x → k < x → x ∈ res) :
    ∀ {r : Regex} {i j : Nat}, Matches s r i j → r = .star a → i ∈ res → j ∈ res := by
  intro r i j hm
  induction hm with
  | star0 i _ => intro _ h; exact h
  | @starS a' i' k' j' hA hS _ ihS =>
    intro hr hires
    cases hr
    have hb := hA.le
    have hb2 := hS.le
    by_cases hik : i' = k'
    · subst hik
      exact ihS rfl hires
    · exact ihS rfl (hclosed i' hires (by omega) k' hA (by omega))
  | eps => intro hr; cases hr
  | chr => intro hr; cases hr
  | seq => intro hr; cases hr
  | altL => intro hr; cases hr
  | altR => intro hr; cases hr
  | group => intro hr; cases hr
  | bol => intro hr; cases hr
  | eol => intro hr; cases hr

/-! ### the matcher computes the relation -/

theorem mem_run (s : List Char) :
    ∀ (r : Regex) (S : List Nat) (j : Nat), j ∈ run s r S ↔ ∃ i ∈ S, Matches s r i j := by
  intro r
  induction r with
  | eps =>
    intro S j
    simp only [run, List.mem_filter, decide_eq_true_eq]
    constructor
    · rintro ⟨hj, hle⟩
      exact ⟨j, hj, .eps j hle⟩
    · rintro ⟨i, hi, h⟩
      cases h
      exact ⟨hi, by assumption⟩
  | chr p =>
    intro S j
    simp only [run]
    rw [mem_stepChr]
    constructor
    · rintro ⟨i, hi, c, hc, hp, rfl⟩
      exact ⟨i, hi, .chr p i c hc hp⟩
    · rintro ⟨i, hi, h⟩
      cases h with
      | chr _ _ c hc hp => exact ⟨i, hi, c, hc, hp, rfl⟩
  | seq a b iha ihb =>
    intro S j
    simp only [run]
    rw [ihb]
    constructor
    · rintro ⟨k, hk, hb⟩
      obtain ⟨i, hi, ha⟩ := (iha S k).mp hk
      exact ⟨i, hi, .seq ha hb⟩
    · rintro ⟨i, hi, h⟩
      cases h with
      | seq ha hb => exact ⟨_, (iha S _).mpr ⟨i, hi, ha⟩, hb⟩
  | alt a b iha ihb =>
    intro S j
    simp only [run]
    rw [mem_uni, iha, ihb]
    constructor
    · rintro (⟨i, hi, h⟩ | ⟨i, hi, h⟩)
      · exact ⟨i, hi, .altL h⟩
      · exact ⟨i, hi, .altR h⟩
    · rintro ⟨i, hi, h⟩
      cases h with
      | altL h => exact Or.inl ⟨i, hi, h⟩
      | altR h => exact Or.inr ⟨i, hi, h⟩
  | star a ih =>
    intro S j
    simp only [run]
    have hspec : ∀ k x, x ∈ run s a [k] ↔ Matches s a k x := by
      intro k x
      rw [ih]
      simp
    constructor
    · intro hj
      refine starLoop_sound (fun k => run s a [k]) (fun x => ∃ i ∈ S, Matches s (.star a) i x) ?_
        (s.length + 1) 0 _ ?_ j hj
      · rintro k x ⟨i, hi, hm⟩ hx _
        exact ⟨i, hi, hm.star_snoc ((hspec k x).mp hx)⟩
      · intro x hx
        simp only [List.mem_filter, decide_eq_true_eq] at hx
        exact ⟨x, hx.1, .star0 x hx.2⟩
    · rintro ⟨i, hi, hm⟩
      have hi0 : i ∈ S.filter (fun i => decide (i ≤ s.length)) := by
        simp only [List.mem_filter, decide_eq_true_eq]
        exact ⟨hi, hm.start_le⟩
      have hires := starLoop_sub (fun k => run s a [k]) (s.length + 1) 0 _ i hi0
      have hclosed := starLoop_closed (fun k => run s a [k]) (s.length + 1) 0
        (S.filter (fun i => decide (i ≤ s.length))) (by intro k _ hk; omega)
      refine star_closed_mem _ ?_ hm rfl hires
      intro k hk hlt x hx hkx
      exact hclosed k hk (by omega) x ((hspec k x).mpr hx) hkx
  | group a ih =>
    intro S j
    simp only [run]
    rw [ih]
    constructor
    · rintro ⟨i, hi, h⟩
      exact ⟨i, hi, .group h⟩
    · rintro ⟨i, hi, h⟩
      cases h with
      | group h => exact ⟨i, hi, h⟩
  | bol =>
    intro S j
    simp only [run]
    constructor
    · intro h
      split at h
      · rename_i hc
        simp only [List.mem_singleton] at h
        subst h
        exact ⟨0, List.contains_iff_mem.mp hc, .bol⟩
      · cases h
    · rintro ⟨i, hi, h⟩
      cases h
      simp [hi]
  | eol =>
    intro S j
    simp only [run]
    constructor
    · intro h
      split at h
      · rename_i hc
        simp only [List.mem_singleton] at h
        subst h
        exact ⟨s.length, List.contains_iff_mem.mp hc, .eol⟩
      · cases h
    · rintro ⟨i, hi, h⟩
      cases h
      simp [hi]

theorem search_iff (r : Regex) (s : List Char) : search r s = true ↔ isMatch r s := by
  unfold search isMatch
  constructor
  · intro h
    have hne : run s r (List.range (s.length + 1)) ≠ [] := by
      intro e
      simp [e] at h
    obtain ⟨j, hj⟩ := List.exists_mem_of_ne_nil _ hne
    obtain ⟨i, _, hm⟩ := (mem_run s r _ j).mp hj
    exact ⟨i, j, hm⟩
  · rintro ⟨i, j, hm⟩
    have hj : j ∈ run s r (List.range (s.length + 1)) :=
      (mem_run s r _ j).mpr ⟨i, List.mem_range.mpr (Nat.lt_succ_of_le hm.start_le), hm⟩
    cases hrun : run s r (List.range (s.length + 1)) with
    | nil => rw [hrun] at hj; cases hj
    | cons _ _ => rfl

theorem full_iff (r : Regex) (s : List Char) : full r s = true ↔ Matches s r 0 s.length := by
  unfold full
  rw [List.contains_iff_mem, mem_run]
  simp

/-! ### the wrapper at AST level -/

theorem wrapAst_isMatch (r : Regex) (s : List Char) : isMatch (wrapAst r) s ↔ Matches s r 0 s.length := by
  constructor
  · rintro ⟨i, j, h⟩
    unfold wrapAst at h
    cases h with
    | seq h1 h2 =>
      cases h1
      cases h2 with
      | seq h3 h4 =>
        cases h4
        cases h3 with
        | group h5 => exact h5
  · intro h
    exact ⟨0, s.length, .seq .bol (.seq (.group h) .eol)⟩

theorem search_wrapAst (r : Regex) (s : List Char) : search (wrapAst r) s = full r s := by
  rw [Bool.eq_iff_iff, search_iff, full_iff, wrapAst_isMatch]

/-! ### literal patterns -/

theorem matches_mkSeq_cons (s : List Char) (x : Regex) (xs : List Regex) (i j : Nat) :
    Matches s (mkSeq (x :: xs)) i j ↔ ∃ k, Matches s x i k ∧ Matches s (mkSeq xs) k j := by
  cases xs with
  | nil =>
    simp only [mkSeq]
    constructor
    · intro h
      exact ⟨j, h, .eps j h.le.2⟩
    · rintro ⟨k, h1, h2⟩
      cases h2
      exact h1
  | cons y ys =>
    simp only [mkSeq]
    constructor
    · intro h
      cases h with
      | seq h1 h2 => exact ⟨_, h1, h2⟩
    · rintro ⟨k, h1, h2⟩
      exact .seq h1 h2

theorem matches_lits (s : List Char) :
    ∀ (cs : List Char) (i j : Nat),
      Matches s (lits cs) i j ↔ i ≤ s.length ∧ cs <+: s.drop i ∧ j = i + cs.length := by
  intro cs
  induction cs with
  | nil =>
    intro i j
    simp only [lits, List.map_nil, mkSeq, List.length_nil, Nat.add_zero]
    constructor
    · intro h
      cases h
      exact ⟨by assumption, List.nil_prefix, rfl⟩
    · rintro ⟨h, _, rfl⟩
      exact .eps _ h
  | cons c cs ih =>
    intro i j
    have hl : lits (c :: cs) = mkSeq (.chr (.lit c) :: cs.map (fun c => .chr (.lit c))) := rfl
    rw [hl, matches_mkSeq_cons]
    constructor
    · rintro ⟨k, h1, h2⟩
      cases h1 with
      | chr _ _ c' hc hp =>
        have hcc : c' = c := by simpa [CPred.test] using hp
        subst hcc
        obtain ⟨hlt, hget⟩ := List.getElem?_eq_some_iff.mp hc
        obtain ⟨_, hpre, hj⟩ := (ih (i + 1) j).mp h2
        refine ⟨Nat.le_of_lt hlt, ?_, ?_⟩
        · rw [List.drop_eq_getElem_cons hlt, hget]
          exact List.cons_prefix_cons.mpr ⟨rfl, hpre⟩
        · simp only [List.length_cons]
          omega
    · rintro ⟨hle, hpre, hj⟩
      have hlt : i < s.length := by
        have := hpre.length_le
        simp only [List.length_cons, List.length_drop] at this
        omega
      rw [List.drop_eq_getElem_cons hlt] at hpre
      obtain ⟨hc, hpre'⟩ := List.cons_prefix_cons.mp hpre
      refine ⟨i + 1, .chr _ i s[i] (by simp [hlt]) (by simp [CPred.test, hc]), ?_⟩
      refine (ih (i + 1) j).mpr ⟨hlt, hpre', ?_⟩
      simp only [List.length_cons] at hj
      omega

/-- a literal pattern matches the whole haystack iff the haystack is that literal -/
theorem lits_full (cs s : List Char) : Matches s (lits cs) 0 s.length ↔ s = cs := by
  rw [matches_lits]
  simp only [List.drop_zero, Nat.zero_add, Nat.zero_le, true_and]
  constructor
  · rintro ⟨hpre, hlen⟩
    exact (hpre.eq_of_length hlen.symm).symm
  · rintro rfl
    exact ⟨List.prefix_refl _, rfl⟩

/-- under plain search a literal pattern matches iff it occurs somewhere in the haystack -/
theorem lits_isMatch (cs s : List Char) : isMatch (lits cs) s ↔ cs <:+: s := by
  unfold isMatch
  constructor
  · rintro ⟨i, j, h⟩
    obtain ⟨_, ⟨t, ht⟩, _⟩ := (matches_lits s cs i j).mp h
    refine ⟨s.take i, t, ?_⟩
    rw [List.append_assoc, ht, List.take_append_drop]
  · rintro ⟨a, b, rfl⟩
    refine ⟨a.length, a.length + cs.length, (matches_lits _ cs _ _).mpr ⟨?_, ?_, rfl⟩⟩
    · simp only [List.length_append]
      omega
    · rw [List.append_assoc, List.drop_left]
      exact List.prefix_append _ _

/-! ### the parser is a fold -/

theorem lexRun_append (x y : List Char) :
    ∀ (m : LexMode), lexRun m (x ++ y) =
      ((lexRun (lexRun m x).1 y).1, (lexRun m x).2 ++ (lexRun (lexRun m x).1 y).2) := by
  induction x with
  | nil => intro m; simp [lexRun]
  | cons c cs ih =>
    intro m
    simp only [List.cons_append, lexRun]
    rw [ih]
    simp [List.append_assoc]

theorem pRun_append (x y : List Tok) :
    ∀ (st : PState), pRun st (x ++ y) = (match pRun st x with | some st' => pRun st' y | none => none) := by
  induction x with
  | nil => intro st; simp [pRun]
  | cons t ts ih =>
    intro st
    simp only [List.cons_append, pRun]
    cases pStep st t with
    | none => rfl
    | some st' => exact ih st'

/-- the same parser state above `base` open groups -/
def PState.lift (base : List Frame) (st : PState) : PState := { st with stack := st.stack ++ base }

theorem pStep_lift (base : List Frame) (st st' : PState) (t : Tok) (h : pStep st t = some st') :
    pStep (st.lift base) t = some (st'.lift base) := by
  cases t with
  | atom p => simp only [pStep, pushItem, PState.lift] at h ⊢; cases h; rfl
  | bol => simp only [pStep, pushItem, PState.lift] at h ⊢; cases h; rfl
  | eol => simp only [pStep, pushItem, PState.lift] at h ⊢; cases h; rfl
  | star =>
    simp only [pStep, repeatLast, PState.lift] at h ⊢
    split at h
    · cases h
    · cases h
      simp
  | plus =>
    simp only [pStep, repeatLast, PState.lift] at h ⊢
    split at h
    · cases h
    · cases h
      simp
  | quest =>
    simp only [pStep, repeatLast, PState.lift] at h ⊢
    split at h
    · rename_i hq
      cases h
      simp [hq]
    · rename_i hq
      split at h
      · cases h
      · cases h
        simp [hq]
  | bar => simp only [pStep, PState.lift] at h ⊢; cases h; rfl
  | lpar => simp only [pStep, PState.lift] at h ⊢; cases h; rfl
  | rpar =>
    simp only [pStep, PState.lift] at h ⊢
    split at h
    · cases h
    · rename_i f fs hs
      cases h
      simp [hs]

theorem pRun_lift (base : List Frame) :
    ∀ (toks : List Tok) (st st' : PState), pRun st toks = some st' →
      pRun (st.lift base) toks = some (st'.lift base) := by
  intro toks
  induction toks with
  | nil => intro st st' h; simp only [pRun] at h ⊢; cases h; rfl
  | cons t ts ih =>
    intro st st' h
    simp only [pRun] at h ⊢
    cases hs : pStep st t with
    | none => rw [hs] at h; cases h
    | some st1 =>
      rw [hs] at h
      rw [pStep_lift base st st1 t hs]
      exact ih st1 st' h

/-! ### `parse (^(?:p)$)` -/

theorem lex_wrap (p : List Char) (toks : List Tok) (h : lex p = some toks) :
    lex (wrapChars p) = some (Tok.bol :: Tok.lpar :: (toks ++ [Tok.rpar, Tok.eol])) := by
  unfold lex at h
  split at h
  · rename_i toks' hrun
    cases h
    unfold lex wrapChars wrapPre wrapSuf
    have h1 : lexRun .normal (['^', '(', '?', ':'] ++ p ++ [')', '$']) =
        (LexMode.normal, Tok.bol :: Tok.lpar :: (toks ++ [Tok.rpar, Tok.eol])) := by
      rw [List.append_assoc]
      simp only [List.cons_append, List.nil_append, lexRun]
      have e1 : lexStep .normal '^' = (.normal, [Tok.bol]) := by decide
      have e2 : lexStep .normal '(' = (.lpar, []) := by decide
      have e3 : lexStep .lpar '?' = (.lparQ, []) := by decide
      have e4 : lexStep .lparQ ':' = (.normal, [Tok.lpar]) := by decide
      simp only [e1, e2, e3, e4]
      rw [lexRun_append, hrun]
      have e5 : lexRun .normal [')', '$'] = (.normal, [Tok.rpar, Tok.eol]) := by decide
      simp [e5]
    rw [h1]
  · cases h

/-- **ParseWrap** (DESIGN §3.3) holds for the modelled subset: the textual wrapper means the AST wrapper -/
theorem parseChars_wrap (p : List Char) (r : Regex) (h : parseChars p = some r) :
    parseChars (wrapChars p) = some (wrapAst r) := by
  unfold parseChars at h
  split at h
  · rename_i toks hlex
    unfold parseToks at h
    split at h
    · rename_i st hrun
      unfold pFinish at h
      split at h
      · rename_i hstack
        cases h
        unfold parseChars
        rw [lex_wrap p toks hlex]
        simp only
        unfold parseToks
        have hbase : pRun .init [Tok.bol, Tok.lpar] = some (PState.init.lift [⟨[], [.bol]⟩]) := by
          decide
        have hrun' := pRun_lift [⟨[], [.bol]⟩] toks .init st hrun
        have e : Tok.bol :: Tok.lpar :: (toks ++ [Tok.rpar, Tok.eol]) =
            [Tok.bol, Tok.lpar] ++ (toks ++ [Tok.rpar, Tok.eol]) := rfl
        rw [e, pRun_append, hbase]
        simp only
        rw [pRun_append, hrun']
        simp only [PState.lift, hstack, List.nil_append, pRun, pStep, pushItem, pFinish]
        simp [finish, mkSeq, mkAlt, wrapAst]
      · cases h
    · cases h
  · cases h

theorem parse_wrapStr (p : String) (r : Regex) (h : parse p = some r) : parse (wrapStr p) = some (wrapAst r) := by
  unfold parse at h ⊢
  have e : (wrapStr p).toList = wrapChars p.toList := by
    unfold wrapStr wrapChars wrapPre wrapSuf
    simp [String.toList_append]
  rw [e]
  exact parseChars_wrap _ r h

/-! ### patterns without metacharacters -/

/-- not one of `\ ( ) [ . * + ? | ^ $ {` -/
def plainChar (c : Char) : Bool :=
  !(c = '\\' || c = '(' || c = ')' || c = '[' || c = '.' || c = '*' || c = '+' || c = '?' || c = '|'
    || c = '^' || c = '$' || c = '{')

theorem stepNormal_plain (c : Char) (h : plainChar c = true) : stepNormal c = (.normal, [.atom (.lit c)]) := by
  unfold plainChar at h
  simp only [Bool.not_eq_true', Bool.or_eq_false_iff, decide_eq_false_iff_not] at h
  obtain ⟨⟨⟨⟨⟨⟨⟨⟨⟨⟨⟨h1, h2⟩, h3⟩, h4⟩, h5⟩, h6⟩, h7⟩, h8⟩, h9⟩, h10⟩, h11⟩, h12⟩ := h
  unfold stepNormal
  simp [h1, h2, h3, h4, h5, h6, h7, h8, h9, h10, h11, h12]

theorem lexRun_plain : ∀ (cs : List Char), (∀ c ∈ cs, plainChar c = true) →
    lexRun .normal cs = (.normal, cs.map (fun c => Tok.atom (.lit c))) := by
  intro cs
  induction cs with
  | nil => intro _; rfl
  | cons c cs ih =>
    intro h
    have hc := stepNormal_plain c (h c List.mem_cons_self)
    have ih' := ih (fun x hx => h x (List.mem_cons_of_mem _ hx))
    simp only [lexRun, lexStep, hc, ih', List.map_cons, List.cons_append, List.nil_append]

theorem pRun_atoms : ∀ (cs : List Char) (st : PState), st.lastQ = false →
    pRun st (cs.map (fun c => Tok.atom (.lit c))) =
      some { st with cat := (cs.map (fun c => Regex.chr (.lit c))).reverse ++ st.cat } := by
  intro cs
  induction cs with
  | nil => intro st h; simp [pRun]
  | cons c cs ih =>
    intro st h
    simp only [List.map_cons, pRun, pStep]
    rw [ih (pushItem st (.chr (.lit c))) rfl]
    simp [pushItem, h]

/-- a pattern without metacharacters parses to the literal pattern -/
theorem parseChars_lits (cs : List Char) (h : ∀ c ∈ cs, plainChar c = true) :
    parseChars cs = some (lits cs) := by
  unfold parseChars lex
  rw [lexRun_plain cs h]
  simp only
  unfold parseToks
  rw [pRun_atoms cs .init rfl]
  simp [pFinish, PState.init, finish, mkAlt, lits]

/-! ### peel and wrap -/

theorem peelChars_wrapChars (p : List Char) : peelChars (wrapChars p) = p := by
  unfold peelChars wrapChars stripPrefix
  have h1 : wrapPre.isPrefixOf (wrapPre ++ p ++ wrapSuf) = true := by
    rw [List.isPrefixOf_iff_prefix, List.append_assoc]
    exact List.prefix_append _ _
  simp only [h1, if_true]
  have h2 : (wrapPre ++ p ++ wrapSuf).drop wrapPre.length = p ++ wrapSuf := by
    rw [List.append_assoc, List.drop_left]
  rw [h2]
  unfold stripSuffix
  have h3 : wrapSuf.isSuffixOf (p ++ wrapSuf) = true := by
    rw [List.isSuffixOf_iff_suffix]
    exact List.suffix_append _ _
  simp only [h3, if_true, Option.getD_some]
  rw [List.length_append, Nat.add_sub_cancel, List.take_left]

/-- what `peel` does in general: it removes the wrapper iff both ends are present, else it is the identity -/
theorem peelChars_spec (re : List Char) :
    (∃ p, re = wrapChars p ∧ peelChars re = p) ∨
    ((¬ ∃ p, re = wrapChars p) ∧ peelChars re = re) := by
  by_cases hpre : wrapPre <+: re
  · obtain ⟨c, rfl⟩ := hpre
    by_cases hsuf : wrapSuf <:+ c
    · obtain ⟨p, rfl⟩ := hsuf
      left
      refine ⟨p, by simp [wrapChars, List.append_assoc], ?_⟩
      have := peelChars_wrapChars p
      simpa [wrapChars, List.append_assoc] using this
    · right
      constructor
      · rintro ⟨p, hp⟩
        apply hsuf
        unfold wrapChars at hp
        rw [List.append_assoc] at hp
        have := List.append_cancel_left hp
        exact ⟨p, this.symm⟩
      · unfold peelChars stripPrefix
        have h1 : wrapPre.isPrefixOf (wrapPre ++ c) = true := by
          rw [List.isPrefixOf_iff_prefix]
          exact List.prefix_append _ _
        simp only [h1, if_true, List.drop_left]
        unfold stripSuffix
        have h3 : wrapSuf.isSuffixOf c = false := by
          rw [Bool.eq_false_iff]
          intro h
          exact hsuf (List.isSuffixOf_iff_suffix.mp h)
        simp [h3]
  · right
    constructor
    · rintro ⟨p, hp⟩
      apply hpre
      rw [hp]
      unfold wrapChars
      rw [List.append_assoc]
      exact List.prefix_append _ _
    · unfold peelChars stripPrefix
      have h1 : wrapPre.isPrefixOf re = false := by
        rw [Bool.eq_false_iff]
        intro h
        exact hpre (List.isPrefixOf_iff_prefix.mp h)
      simp [h1]

end Regex
end Tackler

import TacklerModel.Model.Comb
/-!
# Forward ("print then parse") lemmas for the combinators of `Model/Comb`

Each lemma has the shape `p (token ++ rest) = .ok value rest` under a side condition on how `rest`
starts (`StartsNot pred rest`: `rest` is empty or its first character does not satisfy `pred`), which is
what a greedy `take_while` needs to stop exactly at the end of the token.
-/
namespace Tackler
namespace Comb

/-- `l` is empty or does not start with a character satisfying `pred` -/
def StartsNot (pred : Char → Bool) (l : List Char) : Prop := ∀ c r, l = c :: r → pred c = false

theorem startsNot_nil (pred : Char → Bool) : StartsNot pred [] := by intro c r h; cases h

theorem startsNot_cons {pred : Char → Bool} {c : Char} (r : List Char) (h : pred c = false) :
    StartsNot pred (c :: r) := by
  intro d r' e; cases e; exact h

theorem startsNot_cons_append {pred : Char → Bool} {c : Char} (r r' : List Char) (h : pred c = false) :
    StartsNot pred (c :: r ++ r') := startsNot_cons _ h

/-- a non-empty prefix decides -/
theorem startsNot_append_of_ne_nil {pred : Char → Bool} {a : List Char} (r : List Char) (hne : a ≠ [])
    (h : StartsNot pred a) : StartsNot pred (a ++ r) := by
  cases a with
  | nil => exact absurd rfl hne
  | cons c t => exact startsNot_cons _ (h c t rfl)

theorem startsNot_of_all {pred : Char → Bool} {a : List Char} (h : ∀ c ∈ a, pred c = false) : StartsNot pred a := by
  intro c r e; subst e; exact h c List.mem_cons_self

theorem startsNot_append {pred : Char → Bool} {a r : List Char} (ha : StartsNot pred a) (hr : StartsNot pred r) :
    StartsNot pred (a ++ r) := by
  cases a with
  | nil => simpa using hr
  | cons c t => exact startsNot_cons _ (ha c t rfl)

/-! ### one character, literals -/

theorem oneOf_true {pred : Char → Bool} {c : Char} (t : List Char) (h : pred c = true) :
    oneOf pred (c :: t) = .ok c t := by simp [oneOf, h]

theorem oneOf_false {pred : Char → Bool} {c : Char} (t : List Char) (h : pred c = false) :
    oneOf pred (c :: t) = .bt := by simp [oneOf, h]

theorem oneOf_nil (pred : Char → Bool) : oneOf pred [] = .bt := rfl

theorem oneOf_startsNot {pred : Char → Bool} {s : List Char} (h : StartsNot pred s) : oneOf pred s = .bt := by
  cases s with
  | nil => rfl
  | cons c t => exact oneOf_false t (h c t rfl)

theorem chr_eq (c : Char) (t : List Char) : chr c (c :: t) = .ok c t := by simp [chr, oneOf]

theorem chr_ne {c d : Char} (t : List Char) (h : d ≠ c) : chr c (d :: t) = .bt := by
  simp [chr, oneOf, h]

theorem chr_nil (c : Char) : chr c [] = .bt := rfl

theorem chr_startsNot {c : Char} {s : List Char} (h : StartsNot (fun d => d == c) s) : chr c s = .bt :=
  oneOf_startsNot h

/-! ### choice -/

theorem opt_of_ok {α} {p : P α} {s r : List Char} {a : α} (h : p s = .ok a r) : opt p s = .ok (some a) r := by
  simp [opt, h]

theorem opt_of_bt {α} {p : P α} {s : List Char} (h : p s = .bt) : opt p s = .ok none s := by
  simp [opt, h]

theorem alt_of_ok {α} {p q : P α} {s r : List Char} {a : α} (h : p s = .ok a r) : alt p q s = .ok a r := by
  simp [alt, h]

theorem alt_of_bt {α} {p q : P α} {s : List Char} (h : p s = .bt) : alt p q s = q s := by
  simp [alt, h]

theorem cutErr_of_ok {α} {p : P α} {s r : List Char} {a : α} (h : p s = .ok a r) : cutErr p s = .ok a r := by
  simp [cutErr, h]

theorem peek_of_ok {α} {p : P α} {s r : List Char} {a : α} (h : p s = .ok a r) : peek p s = .ok a s := by
  simp [peek, h]

theorem peek_of_bt {α} {p : P α} {s : List Char} (h : p s = .bt) : peek p s = .bt := by
  simp [peek, h]

/-! ### runs -/

theorem space0_append (b rest : List Char) (hb : ∀ c ∈ b, isSpace c = true) (hr : StartsNot isSpace rest) :
    space0 (b ++ rest) = .ok b rest := takeWhile0_append _ b rest hb hr

theorem space0_none (rest : List Char) (hr : StartsNot isSpace rest) : space0 rest = .ok [] rest := by
  simpa using space0_append [] rest (by simp) hr

theorem space1_append (b rest : List Char) (hne : b ≠ []) (hb : ∀ c ∈ b, isSpace c = true)
    (hr : StartsNot isSpace rest) : space1 (b ++ rest) = .ok b rest := takeWhile1_append _ b rest hne hb hr

theorem takeWhile1_startsNot {pred : Char → Bool} {s : List Char} (h : StartsNot pred s) :
    takeWhile1 pred s = .bt := by
  cases s with
  | nil => rfl
  | cons c t => simp [takeWhile1, List.takeWhile, h c t rfl]

theorem space1_none {rest : List Char} (hr : StartsNot isSpace rest) : space1 rest = .bt :=
  takeWhile1_startsNot hr

theorem spanN_exact (pred : Char → Bool) : ∀ (a rest : List Char), (∀ c ∈ a, pred c = true) →
    spanN pred a.length (a ++ rest) = (a, rest) := by
  intro a
  induction a with
  | nil => intro rest _; rfl
  | cons c t ih =>
    intro rest h
    have hc : pred c = true := h c List.mem_cons_self
    simp only [List.length_cons, List.cons_append, spanN, hc, if_true]
    rw [ih rest (fun d hd => h d (List.mem_cons_of_mem _ hd))]

/-- `take_while(n, pred)` on exactly `n` matching characters, whatever follows -/
theorem takeMN_exact (n : Nat) (pred : Char → Bool) (a rest : List Char) (hlen : a.length = n)
    (ha : ∀ c ∈ a, pred c = true) : takeMN n n pred (a ++ rest) = .ok a rest := by
  subst hlen
  unfold takeMN
  rw [spanN_exact pred a rest ha]
  simp

theorem spanN_upto (pred : Char → Bool) : ∀ (n : Nat) (a rest : List Char), a.length ≤ n →
    (∀ c ∈ a, pred c = true) → StartsNot pred rest → spanN pred n (a ++ rest) = (a, rest) := by
  intro n
  induction n with
  | zero => intro a rest hl _ _; have : a = [] := List.length_eq_zero_iff.mp (by omega); subst this; rfl
  | succ n ih =>
    intro a rest hl ha hr
    cases a with
    | nil =>
      cases rest with
      | nil => rfl
      | cons c t => simp [spanN, hr c t rfl]
    | cons c t =>
      have hc : pred c = true := ha c List.mem_cons_self
      simp only [List.cons_append, spanN, hc, if_true]
      rw [ih t rest (by simpa using hl) (fun d hd => ha d (List.mem_cons_of_mem _ hd)) hr]

/-- `take_while(m..=n, pred)` on a run of `m..n` matching characters followed by a non-matching one -/
theorem takeMN_upto (m n : Nat) (pred : Char → Bool) (a rest : List Char) (hm : m ≤ a.length) (hn : a.length ≤ n)
    (ha : ∀ c ∈ a, pred c = true) (hr : StartsNot pred rest) : takeMN m n pred (a ++ rest) = .ok a rest := by
  unfold takeMN
  rw [spanN_upto pred n a rest hn ha hr]
  simp; omega

theorem takeMN_startsNot (m n : Nat) (pred : Char → Bool) {s : List Char} (hm : 0 < m) (h : StartsNot pred s) :
    takeMN m n pred s = .bt := by
  have := spanN_upto pred n [] s (by simp) (by simp) h
  simp only [List.nil_append] at this
  unfold takeMN
  rw [this]; simp; omega

/-! ### lines -/

/-- `"\n"` or `"\r\n"` -/
def IsEol (eol : List Char) : Prop := eol = ['\n'] ∨ eol = ['\r', '\n']

theorem lineEnding_append {eol : List Char} (h : IsEol eol) (rest : List Char) :
    lineEnding (eol ++ rest) = .ok () rest := by
  rcases h with rfl | rfl <;> rfl

theorem IsEol.startsNot {eol : List Char} (h : IsEol eol) (rest : List Char) {pred : Char → Bool}
    (hn : pred '\n' = false) (hr : pred '\r' = false) : StartsNot pred (eol ++ rest) := by
  rcases h with rfl | rfl
  · exact startsNot_cons _ hn
  · exact startsNot_cons _ hr

theorem IsEol.ne_nil {eol : List Char} (h : IsEol eol) : eol ≠ [] := by
  rcases h with rfl | rfl <;> simp

theorem dropWhile_notEol_eol {eol : List Char} (h : IsEol eol) (rest : List Char) :
    (eol ++ rest).dropWhile notEol = eol ++ rest ∧ (eol ++ rest).takeWhile notEol = [] := by
  rcases h with rfl | rfl <;> simp [notEol]

/-- `till_line_ending` takes a text without `\r`/`\n` up to the line ending -/
theorem tillLineEnding_append (x : List Char) {eol : List Char} (h : IsEol eol) (rest : List Char)
    (hx : ∀ c ∈ x, notEol c = true) : tillLineEnding (x ++ (eol ++ rest)) = .ok x (eol ++ rest) := by
  obtain ⟨hd, ht⟩ := dropWhile_notEol_eol h rest
  unfold tillLineEnding
  rw [List.dropWhile_append_of_pos hx, List.takeWhile_append_of_pos hx, hd, ht]
  rcases h with rfl | rfl <;> simp

theorem lineEnding_startsNot {s : List Char} (h : StartsNot (fun c => c == '\n' || c == '\r') s) : lineEnding s = .bt := by
  cases s with
  | nil => rfl
  | cons c t =>
    have := h c t rfl
    simp at this
    unfold lineEnding
    split
    · rename_i e; cases e; exact absurd rfl this.1
    · rename_i e; cases e; exact absurd rfl this.2
    · rfl

/-! ### repetition -/

theorem repeat0G_fuel {α} (p : P α) (hp : ∀ s, Cons (p s) s) :
    ∀ (f1 f2 : Nat) (s : List Char), s.length < f1 → s.length < f2 →
      repeat0G .cut p f1 s = repeat0G .cut p f2 s := by
  intro f1
  induction f1 with
  | zero => intro f2 s h; omega
  | succ n ih =>
    intro f2 s h1 h2
    cases f2 with
    | zero => omega
    | succ m =>
      simp only [repeat0G]
      split
      · rename_i a r hps
        have hc := hp s a r hps
        simp only [hc.2, if_true]
        rw [ih m r (by omega) (by omega)]
      · rfl
      · rfl

/-- one unfolding of `repeat(0.., p)` for a parser that always consumes -/
theorem repeat0_unfold {α} (p : P α) (hp : ∀ s, Cons (p s) s) (s : List Char) :
    repeat0 p s = match p s with
      | .ok a r => (repeat0 p r).map (a :: ·)
      | .bt => .ok [] s
      | .cut => .cut := by
  have succ : ∀ n, repeat0G .cut p (n + 1) s = match p s with
      | .ok a r => if r.length < s.length then (repeat0G .cut p n r).map (a :: ·) else .cut
      | .bt => .ok [] s
      | .cut => .cut := fun _ => rfl
  cases hps : p s with
  | ok a r =>
    have hc := hp s a r hps
    calc repeat0 p s
        = (if r.length < s.length then (repeat0G .cut p s.length r).map (a :: ·) else .cut) := by
          unfold repeat0; rw [succ, hps]
      _ = (repeat0G .cut p s.length r).map (a :: ·) := by simp [hc.2]
      _ = (repeat0 p r).map (a :: ·) := by
          unfold repeat0; rw [repeat0G_fuel p hp s.length (r.length + 1) r hc.2 (by omega)]
  | bt => unfold repeat0; rw [succ, hps]
  | cut => unfold repeat0; rw [succ, hps]

theorem repeat0_of_bt {α} (p : P α) (hp : ∀ s, Cons (p s) s) {s : List Char} (h : p s = .bt) :
    repeat0 p s = .ok [] s := by
  rw [repeat0_unfold p hp, h]

/-- `repeat(0.., p)` over a printed list: every item is parsed back, then `p` backtracks on the rest.
    `Q` is what the items need to know about the text that follows them. -/
theorem repeat0_list {α β} (p : P α) (hp : ∀ s, Cons (p s) s) (pr : β → List Char) (g : β → α)
    (Q : List Char → Prop) (rest : List Char) (hrest : p rest = .bt) (hQ : Q rest) :
    ∀ (xs : List β), (∀ x ∈ xs, ∀ r, Q r → Q (pr x ++ r) ∧ p (pr x ++ r) = .ok (g x) r) →
      repeat0 p ((xs.map pr).flatten ++ rest) = .ok (xs.map g) rest ∧ Q ((xs.map pr).flatten ++ rest) := by
  intro xs
  induction xs with
  | nil => intro _; exact ⟨by simpa using repeat0_of_bt p hp hrest, by simpa using hQ⟩
  | cons x t ih =>
    intro h
    obtain ⟨ih1, ih2⟩ := ih (fun y hy => h y (List.mem_cons_of_mem _ hy))
    obtain ⟨hq, hx⟩ := h x List.mem_cons_self _ ih2
    simp only [List.map_cons, List.flatten_cons, List.append_assoc]
    refine ⟨?_, hq⟩
    rw [repeat0_unfold p hp, hx]
    simp only []
    rw [ih1]
    rfl

theorem repeat1_list {α β} (p : P α) (hp : ∀ s, Cons (p s) s) (pr : β → List Char) (g : β → α)
    (Q : List Char → Prop) (rest : List Char) (hrest : p rest = .bt) (hQ : Q rest) (x : β) (xs : List β)
    (h : ∀ y ∈ x :: xs, ∀ r, Q r → Q (pr y ++ r) ∧ p (pr y ++ r) = .ok (g y) r) :
    repeat1 p (((x :: xs).map pr).flatten ++ rest) = .ok ((x :: xs).map g) rest := by
  obtain ⟨h1, h2⟩ := repeat0_list p hp pr g Q rest hrest hQ xs (fun y hy => h y (List.mem_cons_of_mem _ hy))
  unfold repeat1
  simp only [List.map_cons, List.flatten_cons, List.append_assoc]
  rw [(h x List.mem_cons_self _ h2).2]
  simp only [Res.bind_ok']
  rw [h1]
  rfl

theorem repeatTillG_fuel {α β} (f : P α) (g : P β) (hf : ∀ s, Cons (f s) s) :
    ∀ (f1 f2 : Nat) (s : List Char), s.length < f1 → s.length < f2 →
      repeatTillG .cut f g f1 s = repeatTillG .cut f g f2 s := by
  intro f1
  induction f1 with
  | zero => intro f2 s h; omega
  | succ n ih =>
    intro f2 s h1 h2
    cases f2 with
    | zero => omega
    | succ m =>
      simp only [repeatTillG]
      split
      · rfl
      · rfl
      · split
        · rename_i a r hfs
          have hc := hf s a r hfs
          simp only [hc.2, if_true]
          rw [ih m r (by omega) (by omega)]
        · rfl
        · rfl

/-- the loop of `repeat_till(.., f, eof)` over a printed list of non-empty items; `Q` is what an item
    needs to know about the text that follows it (it holds of the empty text) -/
theorem repeatTillG_list {α β} (f : P α) (_hf : ∀ s, Cons (f s) s) (pr : β → List Char) (g : β → α)
    (Q : List Char → Prop) (hQ : Q []) :
    ∀ (xs : List β) (fuel : Nat), ((xs.map pr).flatten).length < fuel →
      (∀ x ∈ xs, pr x ≠ [] ∧ ∀ r, Q r → Q (pr x ++ r) ∧ f (pr x ++ r) = .ok (g x) r) →
      repeatTillG .cut f eof fuel ((xs.map pr).flatten) = .ok (xs.map g) [] ∧ Q ((xs.map pr).flatten) := by
  intro xs
  induction xs with
  | nil =>
    intro fuel hfuel _
    cases fuel with
    | zero => omega
    | succ n => exact ⟨by simp [repeatTillG, eof], by simpa using hQ⟩
  | cons x t ih =>
    intro fuel hfuel h
    cases fuel with
    | zero => omega
    | succ n =>
      obtain ⟨hne, hx⟩ := h x List.mem_cons_self
      have heof : eof ((List.map pr (x :: t)).flatten) = .bt := by
        simp only [List.map_cons, List.flatten_cons]
        cases hpx : pr x with
        | nil => exact absurd hpx hne
        | cons c r => rfl
      simp only [List.map_cons, List.flatten_cons, List.length_append] at hfuel
      obtain ⟨ih1, ih2⟩ := ih n (by
        have hpos : 0 < (pr x).length := List.length_pos_iff.mpr hne
        omega) (fun y hy => h y (List.mem_cons_of_mem _ hy))
      obtain ⟨hq, hfx⟩ := hx _ ih2
      refine ⟨?_, by simpa using hq⟩
      simp only [repeatTillG, heof]
      simp only [List.map_cons, List.flatten_cons]
      rw [hfx]
      have hpos : 0 < (pr x).length := List.length_pos_iff.mpr hne
      have hlt : ((t.map pr).flatten).length < (pr x ++ (t.map pr).flatten).length := by
        simp; omega
      simp only [hlt, if_true]
      rw [ih1]
      rfl

theorem repeatTill1_list {α β} (f : P α) (hf : ∀ s, Cons (f s) s) (pr : β → List Char) (g : β → α)
    (Q : List Char → Prop) (hQ : Q [])
    (x : β) (xs : List β) (h : ∀ y ∈ x :: xs, pr y ≠ [] ∧ ∀ r, Q r → Q (pr y ++ r) ∧ f (pr y ++ r) = .ok (g y) r) :
    repeatTill1 f eof (((x :: xs).map pr).flatten) = .ok ((x :: xs).map g) [] ∧
      Q (((x :: xs).map pr).flatten) := by
  obtain ⟨h1, h2⟩ := repeatTillG_list f hf pr g Q hQ xs (((xs.map pr).flatten).length + 1) (by omega)
    (fun y hy => h y (List.mem_cons_of_mem _ hy))
  obtain ⟨hq, hfx⟩ := (h x List.mem_cons_self).2 _ h2
  refine ⟨?_, by simpa using hq⟩
  unfold repeatTill1
  simp only [List.map_cons, List.flatten_cons]
  rw [hfx]
  simp only [Res.bind_ok']
  rw [h1]
  rfl

end Comb
end Tackler

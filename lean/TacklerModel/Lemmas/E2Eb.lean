import TacklerModel.Lemmas.E2E
import TacklerModel.Model.Select
import TacklerModel.Model.Equity
import TacklerModel.Model.Print
import TacklerModel.Lemmas.RoundTripTxn
import TacklerModel.Props.C06b
import TacklerModel.Props.C10
import TacklerModel.Props.E2E
/-!
# Helper lemmas of `Props/E2Eb.lean`

* §1 git storage: `parseAll` with the text parser of a blob is `mapMS (acceptText cfg)` over the blob texts
  (`parseAll_text`), so a git load is `loadFiles` of the selected blobs.
* §2 the equity export as characters (`eqChars`, in the vocabulary of `Model/Print.lean`) and its parse: one posting
  line (`parseTxnPosting_eqPosting`), one transaction (`parseTxn_eqTxn`), the whole export (`parseJournal_eqChars`).
* §3 the text `Tackler.equityText` writes is `eqChars` (`equityText_chars`), and exists for printable timestamps
  (`equityText_some`).
* §4 the export of well-formed (C06 `WF`) source transactions is well-formed (`export_wf`).
-/
namespace Tackler
namespace E2E
open Comb Syntax Select

/-! ## 1. git storage: the blobs are texts -/

/-- `txns_text` on the blob with object id `oid` (`blob oid` = its text), with the `&mut Settings` state `st`:
    the `parse` parameter of `Select.gitLoad` for journals that are texts -/
def gitText (cfg : Time.TsCfg) (blob : String → List Char) (st : Settings) (oid : String) :
    Outcome (List Txn × Settings) :=
  acceptText cfg st (blob oid)

/-- parsing the given entries in order with `gitText` is `mapMS (acceptText cfg)` over their texts (three-valued) -/
theorem parseAll_text (cfg : Time.TsCfg) (blob : String → List Char) : ∀ (sel : List Entry) (st : Settings),
    parseAll (gitText cfg blob) st sel =
      (mapMS (acceptText cfg) st (sel.map (fun e => blob e.oid))).map (fun r => (r.1.flatten, r.2)) := by
  intro sel
  induction sel with
  | nil => intro st; rfl
  | cons e t ih =>
    intro st
    simp only [parseAll, List.map_cons, mapMS]
    rw [show gitText cfg blob st e.oid = acceptText cfg st (blob e.oid) from rfl]
    cases h1 : acceptText cfg st (blob e.oid) with
    | err => rfl
    | undef => rfl
    | ok r =>
      obtain ⟨ts, st1⟩ := r
      simp only []
      rw [ih st1]
      cases mapMS (acceptText cfg) st1 (t.map (fun e => blob e.oid)) with
      | err => rfl
      | undef => rfl
      | ok r2 => obtain ⟨tss, st2⟩ := r2; simp [Outcome.map]

/-! ## 2. the equity export as characters, and its parse

`eqChars` is the export text in the vocabulary of `Model/Print.lean` (lists of characters); §4 shows that it is the
text `Tackler.equityText` writes.  A generated transaction prints like a transaction of the identity export
(`Print.headerL Layout.identity`, posting lines, one empty line) except that a posting line has exactly two blanks
between account and amount and no sign padding: it is the posting line of `C10.toPosting p` in the identity
layout when the amount is negative, and in the layout with a one-blank separator otherwise — so C06's per-line
round trip (`Syntax.parseTxnPosting_print`, any layout of the family) applies line by line. -/

open Print

/-- one posting line of the equity export (`postingLine` of `Model/Equity.lean` and its newline) -/
def eqPostingChars (p : EqPosting) : List Char :=
  [' ', ' ', ' '] ++ acctChars p.acct ++ [' ', ' '] ++ p.amount.toChars ++ commChars p.comm ++ ['\n']

/-- one generated transaction: header line, comment lines, posting lines, empty line -/
def eqTxnChars (t : EqTxn) : List Char :=
  headerL Layout.identity t.toRaw.header ++ (t.posts.map eqPostingChars).flatten ++ ['\n']

/-- the whole export -/
def eqChars (out : List EqTxn) : List Char := (out.map eqTxnChars).flatten

/-- the identity layout with one blank between account and amount -/
def sepOne : Layout := { Layout.identity with sep := [' '] }

theorem layoutOK_sepOne : LayoutOK sepOne := by
  refine ⟨?_, ?_, ?_, ?_, ?_, ?_, ?_, ?_, ?_, ?_⟩ <;> simp [sepOne, Print.Layout.identity, Blanks, isSpace, IsEol]

/-- the layout in which `C10.toPosting p` prints as the equity export prints `p` -/
def eqLayout (p : EqPosting) : Layout := if p.amount.isNeg then Layout.identity else sepOne

theorem layoutOK_eqLayout (p : EqPosting) : LayoutOK (eqLayout p) := by
  unfold eqLayout; split
  · exact layoutOK_identity
  · exact layoutOK_sepOne

/-- any division will do: an equity posting has no value position -/
def div0 : Dec → Dec → Dec := fun _ _ => Dec.zero

theorem eqPostingChars_eq (p : EqPosting) : eqPostingChars p = postingL (eqLayout p) div0 (C10.toPosting p) := by
  unfold eqPostingChars eqLayout postingL postingValueChars priceChars postCommentChars trailFor C10.toPosting
  by_cases hn : p.amount.isNeg = true
  · simp [hn, Layout.identity]
  · simp [hn, sepOne, Layout.identity]

theorem rawPostingOf_toPosting (p : EqPosting) : rawPostingOf div0 (C10.toPosting p) = p.toRaw := by
  unfold rawPostingOf unitOfPosting closingOfPosting C10.toPosting EqPosting.toRaw
  by_cases hc : p.comm = "" <;> simp [hc]

/-- lexical well-formedness of a generated posting: a valid account name, a representable amount, a valid
    commodity name or none -/
structure EqPostingWF (p : EqPosting) : Prop where
  acct : AcctLex p.acct
  amount : NumWF p.amount
  comm : p.comm = "" ∨ (IdentWF p.comm.toList ∧ isValidId p.comm.toList = true)

theorem postingWF_toPosting (p : EqPosting) (h : EqPostingWF p) : PostingWF div0 (C10.toPosting p) :=
  ⟨h.acct, h.amount, h.comm, fun e => e, fun _ hne => absurd rfl hne, fun _ e => by cases e⟩

/-- **posting line of the equity export** parses to the parse tree `EqPosting.toRaw` -/
theorem parseTxnPosting_eqPosting (p : EqPosting) (h : EqPostingWF p) (rest : List Char) :
    parseTxnPosting (eqPostingChars p ++ rest) = .ok p.toRaw rest := by
  rw [eqPostingChars_eq, ← rawPostingOf_toPosting]
  exact parseTxnPosting_print (eqLayout p) (layoutOK_eqLayout p) div0 _ (postingWF_toPosting p h) rest

theorem eqPostingChars_start (p : EqPosting) (h : EqPostingWF p) (r : List Char) :
    PostingStart (eqPostingChars p ++ r) := by
  rw [eqPostingChars_eq]
  exact postingL_start (eqLayout p) (layoutOK_eqLayout p) div0 _ (postingWF_toPosting p h) r

/-- **postings of a generated transaction**: all posting lines, then a blank line or the end -/
theorem parseTxnPostings_eq (p0 : EqPosting) (ps : List EqPosting) (hp : ∀ p ∈ p0 :: ps, EqPostingWF p)
    (rest : List Char) (hr : BlankOrEnd rest) :
    parseTxnPostings (((p0 :: ps).map eqPostingChars).flatten ++ rest) =
      .ok ((p0 :: ps).map EqPosting.toRaw, none) rest := by
  unfold parseTxnPostings
  rw [repeat1_list parseTxnPosting parseTxnPosting_cons eqPostingChars EqPosting.toRaw (fun _ => True) rest
    (parseTxnPosting_end hr) trivial p0 ps (fun p hpm r _ => ⟨trivial, parseTxnPosting_eqPosting p (hp p hpm) r⟩)]
  simp only [Res.bind_ok']
  rw [opt_of_bt (parseTxnLastPosting_end hr)]
  rfl

/-- lexical well-formedness of a generated transaction -/
structure EqTxnWF (t : EqTxn) : Prop where
  ts : TsOK t.ts = true
  desc : LineText t.desc.toList ∧ trimEnd t.desc.toList = t.desc.toList
  comments : ∀ c ∈ t.comments, LineText c.toList
  posts_ne : t.posts ≠ []
  posts : ∀ p ∈ t.posts, EqPostingWF p

theorem headerWF_toRaw (t : EqTxn) (h : EqTxnWF t) : HeaderWF t.toRaw.header := by
  refine ⟨fun c e => (by cases e), ?_, ⟨fun u e => (by cases e), fun g e => (by cases e), fun x e => (by cases e)⟩, ?_⟩
  · intro d e
    simp only [EqTxn.toRaw, Option.some.injEq] at e
    subst e
    exact h.desc
  · intro cs e
    simp only [EqTxn.toRaw, optList] at e
    split at e
    · cases e
    · cases e
      refine ⟨?_, h.comments⟩
      intro hn
      simp_all

theorem blankGap : ['\n'] = blankLines Layout.identity [[]] := by
  simp [blankLines, Layout.identity]

/-- **generated transaction**: parses to the parse tree `EqTxn.toRaw` -/
theorem parseTxn_eqTxn (cfg : Time.TsCfg) (t : EqTxn) (h : EqTxnWF t) (rest : List Char) (hr : TxnStartOrEnd rest) :
    parseTxn cfg (eqTxnChars t ++ rest) = .ok t.toRaw rest := by
  obtain ⟨p0, ps, hps⟩ := List.exists_cons_of_ne_nil h.posts_ne
  have hpw : ∀ p ∈ p0 :: ps, EqPostingWF p := by rw [← hps]; exact h.posts
  have hgb : ∀ l ∈ [([] : List Char)], Blanks l := by
    intro l hl; simp at hl; subst hl; intro c hc; cases hc
  have hform : eqTxnChars t ++ rest =
      headerL Layout.identity t.toRaw.header ++ (((p0 :: ps).map eqPostingChars).flatten ++
        (blankLines Layout.identity [[]] ++ rest)) := by
    rw [← blankGap]
    simp [eqTxnChars, hps]
  rw [hform]
  unfold parseTxn
  rw [cutErr_of_ok (parseTxnHeader_print cfg Layout.identity layoutOK_identity t.toRaw.header
    (ts_roundtrip cfg t.ts h.ts) (headerWF_toRaw t h) _ (by
      simp only [List.map_cons, List.flatten_cons, List.append_assoc]
      exact eqPostingChars_start p0 (hpw p0 List.mem_cons_self) _))]
  simp only [Res.bind_ok']
  rw [cutErr_of_ok (parseTxnPostings_eq p0 ps hpw _
    (blankLines_blankOrEnd Layout.identity layoutOK_identity [] [] (hgb [] (by simp)) rest))]
  simp only [Res.bind_ok']
  rw [alt_of_ok (multispace_print Layout.identity layoutOK_identity [] [] hgb rest hr)]
  simp only [Res.bind_ok']
  simp [EqTxn.toRaw, hps]

theorem eqTxnChars_form (t : EqTxn) (r : List Char) :
    ∃ rest', eqTxnChars t ++ r = pad 4 (tsY t.ts) ++ rest' := by
  have e : t.toRaw.header.ts = t.ts := rfl
  exact ⟨_, by rw [eqTxnChars, List.append_assoc, List.append_assoc, headerL_eq, e, rfc3339_eq]⟩

theorem eqTxnChars_start (t : EqTxn) (r : List Char) : TxnStartOrEnd (eqTxnChars t ++ r) := by
  obtain ⟨rest', hform⟩ := eqTxnChars_form t r
  obtain ⟨c, u, hc⟩ := List.exists_cons_of_ne_nil (pad_ne_nil 4 (tsY t.ts))
  have hd : isDecDigit c = true := by
    have := padLeft_all_digits 4 (tsY t.ts) c
    apply this
    show c ∈ pad 4 _
    rw [hc]; exact List.mem_cons_self
  rw [hform, hc]
  refine Or.inr ⟨c, u ++ rest', rfl, isSpace_of_digit c hd, ?_, ?_⟩
  · intro e; rw [e] at hd; revert hd; decide
  · intro e; rw [e] at hd; revert hd; decide

theorem eqTxnChars_ne_nil (t : EqTxn) : eqTxnChars t ≠ [] := by
  intro h
  obtain ⟨rest', hform⟩ := eqTxnChars_form t []
  rw [h] at hform
  have := pad_ne_nil 4 (tsY t.ts)
  cases hp : pad 4 (tsY t.ts) with
  | nil => exact this hp
  | cons c u => rw [hp] at hform; simp at hform

/-- **the whole export**: a non-empty list of well-formed generated transactions prints to a text that the journal
    grammar maps to exactly their parse trees `EqTxn.toRaw`, in order (any journal zone: the export prints offsets) -/
theorem parseJournal_eqChars (cfg : Time.TsCfg) (out : List EqTxn) (hne : out ≠ []) (hw : ∀ t ∈ out, EqTxnWF t) :
    parseJournal cfg (eqChars out) = some (out.map EqTxn.toRaw) := by
  obtain ⟨t0, tl, rfl⟩ := List.exists_cons_of_ne_nil hne
  obtain ⟨hrt, hq⟩ := repeatTill1_list (parseTxn cfg) (parseTxn_cons cfg) eqTxnChars EqTxn.toRaw TxnStartOrEnd (Or.inl rfl)
    t0 tl (fun t htm => ⟨eqTxnChars_ne_nil t, fun r hr => ⟨eqTxnChars_start t r, parseTxn_eqTxn cfg t (hw t htm) r hr⟩⟩)
  have hlead : opt multispace0LineEnding (eqChars (t0 :: tl)) = .ok none (((t0 :: tl).map eqTxnChars).flatten) := by
    apply opt_of_bt
    unfold multispace0LineEnding repeat1
    unfold eqChars
    rw [blankLine_stop hq]; rfl
  unfold parseJournal parseTxns
  rw [hlead]; simp only [Res.bind_ok']
  rw [hrt]

/-! ## 3. the text `equityText` writes is `eqChars`

`Model/Equity.lean` renders with `String`s (`rfc3339`, `postingLine`, `txnLines`, `allLines`, `equityText`); here its
characters are identified with the `Print` vocabulary, so that §2 applies to the exact text of the export. -/


theorem dropWhile_append_of_nil {α} (p : α → Bool) : ∀ (a b : List α), a.dropWhile p = [] → (a ++ b).dropWhile p = b.dropWhile p := by
  intro a
  induction a with
  | nil => intro b _; rfl
  | cons x t ih =>
    intro b h
    simp only [List.dropWhile_cons] at h
    split at h
    · rename_i hx; simp only [List.cons_append, List.dropWhile_cons, hx, if_true]; exact ih b h
    · cases h

theorem dropWhile_append_of_ne_nil {α} (p : α → Bool) : ∀ (a b : List α), a.dropWhile p ≠ [] → (a ++ b).dropWhile p = a.dropWhile p ++ b := by
  intro a
  induction a with
  | nil => intro b h; exact absurd rfl h
  | cons x t ih =>
    intro b h
    simp only [List.dropWhile_cons] at h
    simp only [List.cons_append, List.dropWhile_cons]
    split
    · rename_i hx; rw [if_pos hx] at h; exact ih b h
    · rfl

theorem dropEndWhile_eq (p : Char → Bool) : ∀ l : List Char, dropEndWhile p l = (l.reverse.dropWhile p).reverse := by
  intro l
  induction l with
  | nil => rfl
  | cons c t ih =>
    simp only [dropEndWhile, List.reverse_cons]
    rw [ih]
    cases h : (t.reverse.dropWhile p).reverse with
    | nil =>
      have h' : t.reverse.dropWhile p = [] := by simpa using h
      rw [dropWhile_append_of_nil p _ _ h']
      simp only [List.dropWhile_cons, List.dropWhile_nil]
      split <;> simp
    | cons d r =>
      have h' : t.reverse.dropWhile p ≠ [] := by intro e; rw [e] at h; cases h
      rw [dropWhile_append_of_ne_nil p _ _ h', List.reverse_append, h]
      rfl

theorem dropTrailingZeros_eq (l : List Char) : dropTrailingZeros l = dropEndWhile (fun c => c == '0') l :=
  (dropEndWhile_eq _ l).symm

theorem pad2_toList (n : Nat) : (pad2 n).toList = pad 2 n := by simp [pad2, pad]
theorem pad4_toList (n : Nat) : (pad4 n).toList = pad 4 n := by simp [pad4, pad]

theorem fracStr_toList (ns : Nat) : (fracStr ns).toList = fracChars ns := by
  unfold fracStr fracChars
  split
  · rfl
  · simp [dropTrailingZeros_eq, pad]

theorem offsetStr_toList (off : Int) : (offsetStr off).toList = offsetChars off := by
  unfold offsetStr offsetChars
  simp only [String.toList_append, pad2_toList]
  split <;> split <;> simp [pad2_toList]



/-- the timestamp text of the equity export is `Print.rfc3339` -/
theorem eq_rfc3339_toList (ts : Ts) (s : String) (h : Tackler.rfc3339 ts = some s) : s.toList = Print.rfc3339 ts := by
  unfold Tackler.rfc3339 at h
  generalize hc : Time.civilAt ts.ns ts.offset = c at h
  obtain ⟨y, m, d, hh, mi, sec, ns⟩ := c
  simp only at h
  split at h
  · exact absurd h (by simp)
  · have e := Option.some.inj h
    subst e
    simp [Print.rfc3339, hc, pad2_toList, pad4_toList, fracStr_toList, offsetStr_toList]

theorem eq_rfc3339_some (ts : Ts) (h : TsOK ts = true) : ∃ s, Tackler.rfc3339 ts = some s := by
  have hneg : ¬ (Time.civilAt ts.ns ts.offset).1 < 0 := by
    intro hn
    have := C06.negative_year_not_tsOK ts hn
    rw [h] at this; cases this
  have hy := (C06.fields_of_tsOK ts h).1
  unfold Tackler.rfc3339
  generalize hc : Time.civilAt ts.ns ts.offset = c at hneg hy
  obtain ⟨y, m, d, hh, mi, sec, ns⟩ := c
  simp only at hneg hy ⊢
  rw [if_neg (by omega)]
  exact ⟨_, rfl⟩

theorem acctName_chars (p : Path) : (acctName p).toList = acctChars p := by
  rw [KeyOrder.acctName_toList]; rfl

theorem postingLine_toList (p : EqPosting) : (postingLine p ++ "\n").toList = eqPostingChars p := by
  unfold postingLine eqPostingChars eqIndent commChars Dec.toString
  by_cases hc : p.comm = "" <;> simp [hc, acctName_chars]



theorem commentLines_optList (cs : List String) :
    commentLines Layout.identity (optList cs) = (cs.map (commentLine Layout.identity)).flatten := by
  unfold optList
  cases cs with
  | nil => rfl
  | cons c t => rfl

theorem commentLine_toList (c : String) : (eqIndent ++ "; " ++ c ++ "\n").toList = commentLine Layout.identity c := by
  simp [commentLine, eqIndent, Layout.identity]

/-- the lines of one generated transaction, each with its newline, are `eqTxnChars` -/
theorem txnLines_chars (t : EqTxn) (ls : List String) (h : txnLines t = some ls) :
    ((ls.map (· ++ "\n")).map String.toList).flatten = eqTxnChars t := by
  unfold txnLines at h
  split at h
  · exact absurd h (by simp)
  · rename_i tss hts
    have e := Option.some.inj h
    subst e
    have hts' := eq_rfc3339_toList t.ts tss hts
    have hc : ∀ cs : List String, ((cs.map (fun c => eqIndent ++ "; " ++ c)).map (fun l => (l ++ "\n").toList)).flatten
        = (cs.map (commentLine Layout.identity)).flatten := by
      intro cs
      rw [List.map_map]
      congr 1
      apply List.map_congr_left
      intro c _
      exact commentLine_toList c
    have hp : ∀ ps : List EqPosting, ((ps.map postingLine).map (fun l => (l ++ "\n").toList)).flatten
        = (ps.map eqPostingChars).flatten := by
      intro ps
      rw [List.map_map]
      congr 1
      apply List.map_congr_left
      intro p _
      exact postingLine_toList p
    simp only [List.map_append, List.map_map, List.flatten_append, List.map_cons, List.map_nil, List.flatten_cons,
      List.flatten_nil, List.append_nil, Function.comp_def] at hc hp ⊢
    rw [hc, hp]
    simp [eqTxnChars, headerL, EqTxn.toRaw, hts', codeChars, descChars, Layout.identity, metaItem, uuidLine,
      locationLine, tagsLine]
    exact (commentLines_optList t.comments).symm

theorem allLines_nil : allLines [] = some [] := rfl

/-- (`allLines`' own equation lemmas are too expensive to generate: stated with `Option.bind`) -/
theorem allLines_cons (t : EqTxn) (r : List EqTxn) :
    allLines (t :: r) = (txnLines t).bind (fun l => (allLines r).bind (fun ls => some (l ++ ls))) := by
  cases h : txnLines t with
  | none =>
    show (match txnLines t with
      | none => none
      | some l => match allLines r with
        | none => none
        | some ls => some (l ++ ls)) = _
    rw [h]; rfl
  | some l =>
    show (match txnLines t with
      | none => none
      | some l => match allLines r with
        | none => none
        | some ls => some (l ++ ls)) = _
    rw [h]
    cases allLines r <;> rfl

theorem allLines_chars : ∀ (out : List EqTxn) (ls : List String), allLines out = some ls →
    ((ls.map (· ++ "\n")).map String.toList).flatten = eqChars out := by
  intro out
  induction out with
  | nil =>
    intro ls h
    rw [allLines_nil] at h
    have e := Option.some.inj h
    subst e
    simp [eqChars]
  | cons t rest ih =>
    intro ls h
    rw [allLines_cons] at h
    cases hl : txnLines t with
    | none => rw [hl] at h; exact absurd h (by simp)
    | some l =>
      cases hls' : allLines rest with
      | none => rw [hl, hls'] at h; exact absurd h (by simp)
      | some ls' =>
        rw [hl, hls'] at h
        have e : l ++ ls' = ls := by simpa using h
        subst e
        simp only [List.map_append, List.flatten_append, eqChars, List.map_cons, List.flatten_cons]
        rw [txnLines_chars t l hl]
        congr 1
        exact ih ls' hls'

/-- **the text `equityText` writes is `eqChars`** -/
theorem equityText_chars (out : List EqTxn) (s : String) (h : equityText out = some s) : s.toList = eqChars out := by
  unfold equityText at h
  split at h
  · exact absurd h (by simp)
  · rename_i ls hls
    have e := Option.some.inj h
    subst e
    rw [← allLines_chars out ls hls]
    simp [List.flatMap, List.map_map, Function.comp_def]

theorem txnLines_some (t : EqTxn) (h : TsOK t.ts = true) : ∃ ls, txnLines t = some ls := by
  obtain ⟨s, hs⟩ := eq_rfc3339_some t.ts h
  exact ⟨_, by unfold txnLines; rw [hs]⟩

theorem allLines_some : ∀ (out : List EqTxn), (∀ t ∈ out, TsOK t.ts = true) → ∃ ls, allLines out = some ls := by
  intro out
  induction out with
  | nil => intro _; exact ⟨[], allLines_nil⟩
  | cons t rest ih =>
    intro h
    obtain ⟨l, hl⟩ := txnLines_some t (h t List.mem_cons_self)
    obtain ⟨ls, hls⟩ := ih (fun x hx => h x (List.mem_cons_of_mem _ hx))
    exact ⟨l ++ ls, by rw [allLines_cons, hl, hls]; rfl⟩

/-- the export of transactions with printable timestamps has a text -/
theorem equityText_some (out : List EqTxn) (h : ∀ t ∈ out, TsOK t.ts = true) : ∃ s, equityText out = some s := by
  obtain ⟨ls, hls⟩ := allLines_some out h
  exact ⟨_, by unfold equityText; rw [hls]⟩


/-! ## 4. the export of well-formed source transactions is well-formed -/

theorem units_ne_zero (d : Dec) (h : d.isZero = false) : d.units ≠ 0 := by
  have hc : d.coeff ≠ 0 := by simpa [Dec.isZero] using h
  unfold Dec.units
  have h1 : sgn d.neg ≠ 0 := by cases d.neg <;> simp [sgn]
  have h2 : ((d.coeff : Nat) : Int) ≠ 0 := by exact_mod_cast hc
  have h3 : (10 : Int) ^ (28 - d.scale) ≠ 0 := Int.pow_ne_zero (by decide)
  exact Int.mul_ne_zero (Int.mul_ne_zero h1 h2) h3

/-- a balance row with a non-zero own sum is posted to: some posting of the selection has its account and commodity -/
theorem row_posted (sb : Settings) (txns : List Txn) (hpw : C02.PostsWF (postsOf txns)) (all : List BalRow)
    (hall : balance sb (postsOf txns) = .ok all) (r : BalRow) (hr : r ∈ all) (hnz : r.own.isZero = false) :
    ∃ t ∈ txns, ∃ q ∈ t.posts, q.acct = r.acct ∧ q.comm = r.comm := by
  have hown := C02.own_sum sb _ hpw all hall r hr
  have hne : C02.ownSum (postsOf txns) r.key ≠ 0 := by rw [← hown]; exact units_ne_zero r.own hnz
  unfold C02.ownSum at hne
  cases hf : (postsOf txns).filter (fun p => decide (p.key = r.key)) with
  | nil => rw [hf] at hne; exact absurd rfl hne
  | cons p rest =>
    have hp : p ∈ (postsOf txns).filter (fun p => decide (p.key = r.key)) := by rw [hf]; exact List.mem_cons_self
    obtain ⟨hp1, hp2⟩ := List.mem_filter.mp hp
    have hk : p.key = r.key := by simpa using hp2
    obtain ⟨t, ht, q, hq, rfl⟩ := (mem_postsOf txns p).mp hp1
    simp only [BPost.key, BalRow.key, Prod.mk.injEq] at hk
    exact ⟨t, ht, q, hq, hk.2, hk.1⟩

/-- the own sums of a balance are representable when the posted amounts are -/
theorem balance_own_wf (sb : Settings) (posts : List BPost) (rows : List BalRow)
    (hwf : ∀ p ∈ posts, p.amount.scale ≤ 28 ∧ p.amount.coeff ≤ max96) (h : balance sb posts = .ok rows) :
    ∀ r ∈ rows, r.own.scale ≤ 28 ∧ r.own.coeff ≤ max96 := by
  refine EqL.balance_P (fun d => d.scale ≤ 28 ∧ d.coeff ≤ max96) (by simp [Dec.zero]) sb posts rows ?_ h
  intro sums hs ks hks
  unfold accountSums at hs
  obtain ⟨g, hg, hsum⟩ := EqL.sumGroups_mem _ _ hs ks hks
  refine C06.sumFrom_wf _ Dec.zero ks.2 (by simp [Dec.zero]) (by simp [Dec.zero]) ?_ hsum
  intro d hd
  obtain ⟨p, hp, rfl⟩ := List.mem_map.mp hd
  have := EqL.chunkBy_sub BPost.key _ _ hg p hp
  exact hwf p ((List.mergeSort_perm posts _).mem_iff.mp this)

theorem lineText_of_noWs (l : List Char) (h : ∀ c ∈ l, isWhitespace c = false) : LineText l := by
  intro c hc
  have := h c hc
  simp only [notEol, Bool.and_eq_true, bne_iff_ne, ne_eq]
  constructor <;> (intro e; subst e; revert this; decide)

theorem trimEnd_noWs : ∀ (l : List Char), (∀ c ∈ l, isWhitespace c = false) → trimEnd l = l := by
  intro l
  induction l with
  | nil => intro _; rfl
  | cons c t ih =>
    intro h
    have e := ih (fun d hd => h d (List.mem_cons_of_mem _ hd))
    simp only [trimEnd, e]
    cases t with
    | nil => simp [h c List.mem_cons_self]
    | cons a b => rfl

/-- text ending in a non-empty run without white space is right-trimmed -/
theorem trimEnd_append_noWs : ∀ (x y : List Char), y ≠ [] → (∀ c ∈ y, isWhitespace c = false) → trimEnd (x ++ y) = x ++ y := by
  intro x
  induction x with
  | nil => intro y _ h; exact trimEnd_noWs y h
  | cons d x ih =>
    intro y hy h
    have e := ih y hy h
    simp only [List.cons_append, trimEnd, e]
    cases hxy : x ++ y with
    | nil => exact absurd (List.append_eq_nil_iff.mp hxy).2 hy
    | cons a b => rfl



theorem validId_noWs (l : List Char) (h : isValidId l = true) : l ≠ [] ∧ ∀ c ∈ l, isWhitespace c = false := by
  unfold isValidId at h
  split at h
  · cases h
  · rename_i c t
    simp only [Bool.and_eq_true, Bool.not_eq_true', List.any_eq_false] at h
    refine ⟨by simp, ?_⟩
    intro d hd
    have := h.2 d hd
    simp only [illegalCharacters, Bool.or_eq_true, not_or, Bool.not_eq_true] at this
    exact this.2

theorem uuid_noWs (u : List Char) (h : UuidWF u) : u ≠ [] ∧ ∀ c ∈ u, isWhitespace c = false := by
  refine ⟨?_, ?_⟩
  · intro e; have := uuidWF_length u h; rw [e] at this; cases this
  · intro c hc
    rcases uuidWF_chars u h c hc with h1 | rfl
    · simp only [isLowerHex, isDecDigit, Bool.or_eq_true, Bool.and_eq_true, decide_eq_true_eq] at h1
      simp only [isWhitespace, inRange, Bool.or_eq_false_iff, Bool.and_eq_false_iff, decide_eq_false_iff_not, beq_eq_false_iff_ne]
      omega
    · decide

theorem lineText_append {a b : List Char} (ha : LineText a) (hb : LineText b) : LineText (a ++ b) := by
  intro c hc
  rcases List.mem_append.mp hc with h | h
  · exact ha c h
  · exact hb c h

/-- the description of a generated transaction is one line and right-trimmed -/
theorem eqDesc_wf (c : String) (uuid : Option String) (hc : c = "" ∨ isValidId c.toList = true)
    (hu : ∀ u, uuid = some u → UuidWF u.toList) :
    LineText (eqDesc c uuid).toList ∧ trimEnd (eqDesc c uuid).toList = (eqDesc c uuid).toList := by
  have hE : ∀ ch ∈ "Equity".toList, isWhitespace ch = false := by decide
  have hEne : "Equity".toList ≠ [] := by decide
  have hF : LineText " for ".toList := by unfold LineText; decide
  have hL : LineText ": last txn (uuid): ".toList := by unfold LineText; decide
  have hcs : (commStr c).toList = [] ∨ ((commStr c).toList = " for ".toList ++ c.toList ∧ c.toList ≠ [] ∧
      ∀ ch ∈ c.toList, isWhitespace ch = false) := by
    unfold commStr
    by_cases he : c = ""
    · left; rw [if_pos he]; rfl
    · right; rw [if_neg he]; exact ⟨by simp, validId_noWs _ (hc.resolve_left he)⟩
  have hus : (uuidStr uuid).toList = [] ∨ ∃ u, (uuidStr uuid).toList = ": last txn (uuid): ".toList ++ u ∧ u ≠ [] ∧
      ∀ ch ∈ u, isWhitespace ch = false := by
    cases uuid with
    | none => left; rfl
    | some u =>
      have e : (uuidStr (some u)).toList = ": last txn (uuid): ".toList ++ u.toList := by
        rw [show uuidStr (some u) = ": last txn (uuid): " ++ u from rfl, String.toList_append]
      have hw := uuid_noWs _ (hu u rfl)
      exact Or.inr ⟨u.toList, e, hw.1, hw.2⟩
  have hform : (eqDesc c uuid).toList = "Equity".toList ++ ((commStr c).toList ++ (uuidStr uuid).toList) := by
    simp [eqDesc]
  rw [hform]
  rcases hus with hu0 | ⟨u, hu1, hune, huw⟩
  · rw [hu0, List.append_nil]
    rcases hcs with hc0 | ⟨hc1, hcne, hcw⟩
    · rw [hc0, List.append_nil]
      exact ⟨lineText_of_noWs _ hE, trimEnd_append_noWs [] _ hEne hE⟩
    · rw [hc1, ← List.append_assoc]
      exact ⟨lineText_append (lineText_append (lineText_of_noWs _ hE) hF) (lineText_of_noWs _ hcw),
        trimEnd_append_noWs _ _ hcne hcw⟩
  · rw [hu1]
    have hcl : LineText (commStr c).toList := by
      rcases hcs with hc0 | ⟨hc1, _, hcw⟩
      · rw [hc0]; intro _ h; cases h
      · rw [hc1]; exact lineText_append hF (lineText_of_noWs _ hcw)
    refine ⟨lineText_append (lineText_of_noWs _ hE) (lineText_append hcl (lineText_append hL (lineText_of_noWs _ huw))), ?_⟩
    have : "Equity".toList ++ ((commStr c).toList ++ (": last txn (uuid): ".toList ++ u)) =
        ("Equity".toList ++ ((commStr c).toList ++ ": last txn (uuid): ".toList)) ++ u := by simp
    rw [this]
    exact trimEnd_append_noWs _ _ hune huw



theorem warningLines_lineText : ∀ c ∈ warningLines, LineText c.toList := by
  unfold LineText; decide

/-- **the export of well-formed transactions is well-formed**: every generated transaction of an equity export over
    transactions satisfying C06's `WF` (what the acceptor produces from text) has a printable timestamp, a one-line
    right-trimmed description, one-line comments (given that the metadata texts `md` are single lines) and posting
    lines with valid account and commodity names (given that the equity account is a valid name) and representable
    amounts -/
theorem export_wf (sb : Settings) (acc : Option (Path → Bool)) (eqa : Path) (md : List String) (txns : List Txn)
    (out : List EqTxn) (hsrc : ∀ t ∈ txns, C06.WF div0 t) (hpw : C02.PostsWF (postsOf txns))
    (he : equityExport sb acc eqa md txns = .ok out)
    (heqa : AcctLex eqa) (hmd : ∀ c ∈ md, LineText c.toList) : ∀ t ∈ out, EqTxnWF t := by
  obtain ⟨all, hall, hcase⟩ := C10.export_inv sb acc eqa md txns out he
  have hgood := C10.export_good sb acc eqa md txns out he
  rcases hcase with ⟨_, rfl⟩ | ⟨_, last, hlast, hout⟩
  · intro t ht; cases ht
  · intro t ht
    have hlm : last ∈ txns := List.mem_of_getLast? hlast
    obtain ⟨kg, hkg, hk⟩ := C10.eqTxns_mem eqa last.header md _ out hout t ht
    obtain ⟨hkne, hkeys⟩ := EqL.chunkBy_keys (fun r : BalRow => r.comm) _ kg hkg
    have hsub := EqL.chunkBy_sub (fun r : BalRow => r.comm) _ kg hkg
    -- the postings amounts of the source are representable
    have hposts : ∀ p ∈ postsOf txns, p.amount.scale ≤ 28 ∧ p.amount.coeff ≤ max96 := by
      intro p hp
      obtain ⟨t', ht', q, hq, rfl⟩ := (mem_postsOf txns p).mp hp
      have := ((hsrc t' ht').posts q hq).amount
      exact ⟨this.1, this.2.1⟩
    have hown := balance_own_wf sb _ all hposts hall
    -- every selected row: posted, hence lexically good names
    have hrow : ∀ r ∈ kg.2, r ∈ all ∧ r.own.isZero = false ∧ AcctLex r.acct ∧
        (r.comm = "" ∨ (IdentWF r.comm.toList ∧ isValidId r.comm.toList = true)) := by
      intro r hr
      have hrs := hsub r hr
      simp only [C10.selRows, List.mem_filter] at hrs
      have hnz := C10.nonZeroSel_nonzero acc r hrs.2
      obtain ⟨t', ht', q, hq, ha, hc⟩ := row_posted sb txns hpw all hall r hrs.1 hnz
      have hq' := (hsrc t' ht').posts q hq
      exact ⟨hrs.1, hnz, ha ▸ hq'.acct, hc ▸ hq'.comm⟩
    -- the commodity of the chunk
    have hcomm : kg.1 = "" ∨ (IdentWF kg.1.toList ∧ isValidId kg.1.toList = true) := by
      obtain ⟨r0, rs, hr0⟩ := List.exists_cons_of_ne_nil hkne
      have hm : r0 ∈ kg.2 := by rw [hr0]; exact List.mem_cons_self
      have := (hrow r0 hm).2.2.2
      rw [hkeys r0 hm] at this
      exact this
    obtain ⟨dsum, hd, rfl⟩ := C10.eqTxn_spec eqa last.header md kg.1 kg.2 t hk
    have hdw : dsum.scale ≤ 28 ∧ dsum.coeff ≤ max96 := by
      refine C06.sumFrom_wf _ Dec.zero dsum (by simp [Dec.zero]) (by simp [Dec.zero]) ?_ hd
      intro d hdm
      obtain ⟨r, hr, rfl⟩ := List.mem_map.mp hdm
      exact hown r (hrow r hr).1
    refine ⟨(hsrc last hlm).ts, ?_, ?_, (hgood _ ht).nonempty, ?_⟩
    · exact eqDesc_wf kg.1 last.header.uuid (hcomm.imp id (fun h => h.2)) (hsrc last hlm).header.metaOK.uuid
    · intro c hc
      rcases List.mem_append.mp hc with h | h
      · exact hmd c h
      · unfold warning at h
        split at h
        · exact warningLines_lineText c h
        · cases h
    · intro p hp
      simp only [List.mem_append, List.mem_map] at hp
      rcases hp with ⟨r, hr, rfl⟩ | hp
      · obtain ⟨hra, hnz, hacct, hc⟩ := hrow r hr
        have hw := hown r hra
        exact ⟨hacct, ⟨hw.1, hw.2, fun _ => by simpa [Dec.isZero] using hnz⟩, hc⟩
      · unfold balancing at hp
        split at hp
        · cases hp
        · rename_i hz
          simp only [List.mem_singleton] at hp
          subst hp
          refine ⟨heqa, ⟨by simpa [Dec.negate] using hdw.1, by simpa [Dec.negate] using hdw.2, fun _ => ?_⟩, hcomm⟩
          simpa [Dec.negate, Dec.isZero] using hz


end E2E
end Tackler

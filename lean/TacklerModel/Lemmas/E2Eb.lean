import TacklerModel.Lemmas.E2E
import TacklerModel.Model.Select
import TacklerModel.Model.Equity
import TacklerModel.Model.Print
import TacklerModel.Lemmas.RoundTripTxn
/-!
# Helper lemmas of `Props/E2Eb.lean`

* §1 git storage: `parseAll` with the text parser of a blob is `mapMS (acceptText cfg)` over the blob texts
  (`parseAll_text`), so a git load is `loadFiles` of the selected blobs.
* §2 … §5 the equity export as text: the characters of `equityText` (`equityText_chars`), one posting line parses
  back (`parseTxnPosting_eqPosting`), one transaction (`parseTxn_eqTxn`), the whole export (`parseJournal_eqChars`).
-/
namespace Tackler
namespace E2E
open Comb Syntax Select

/-! ## 1. git storage: the blobs are texts -/

/-- `txns_text` on the blob with object id `oid` (`blob oid` = its text), with the `&mut Settings` state `st`:
    the `parse` parameter of `Select.gitLoad` for journals that are texts -/
def gitText (cfg : Time.TsCfg) (blob : String → List Char) (st : Settings) (oid : String) :
    Outcome (List Txn × Settings) :=
  acceptText cfg st (blob oid)

/-- parsing the given entries in order with `gitText` is `mapMS (acceptText cfg)` over their texts (three-valued) -/
theorem parseAll_text (cfg : Time.TsCfg) (blob : String → List Char) : ∀ (sel : List Entry) (st : Settings),
    parseAll (gitText cfg blob) st sel =
      (mapMS (acceptText cfg) st (sel.map (fun e => blob e.oid))).map (fun r => (r.1.flatten, r.2)) := by
  intro sel
  induction sel with
  | nil => intro st; rfl
  | cons e t ih =>
    intro st
    simp only [parseAll, List.map_cons, mapMS]
    rw [show gitText cfg blob st e.oid = acceptText cfg st (blob e.oid) from rfl]
    cases h1 : acceptText cfg st (blob e.oid) with
    | err => rfl
    | undef => rfl
    | ok r =>
      obtain ⟨ts, st1⟩ := r
      simp only []
      rw [ih st1]
      cases mapMS (acceptText cfg) st1 (t.map (fun e => blob e.oid)) with
      | err => rfl
      | undef => rfl
      | ok r2 => obtain ⟨tss, st2⟩ := r2; simp [Outcome.map]

end E2E
end Tackler

import TacklerModel.Lemmas.E2E
import TacklerModel.Model.Select
import TacklerModel.Model.Equity
import TacklerModel.Model.Print
import TacklerModel.Lemmas.RoundTripTxn
import TacklerModel.Props.C06b
import TacklerModel.Props.C10
/-!
# Helper lemmas of `Props/E2Eb.lean`

* §1 git storage: `parseAll` with the text parser of a blob is `mapMS (acceptText cfg)` over the blob texts
  (`parseAll_text`), so a git load is `loadFiles` of the selected blobs.
* §2 … §5 the equity export as text: the characters of `equityText` (`equityText_chars`), one posting line parses
  back (`parseTxnPosting_eqPosting`), one transaction (`parseTxn_eqTxn`), the whole export (`parseJournal_eqChars`).
-/
namespace Tackler
namespace E2E
open Comb Syntax Select

/-! ## 1. git storage: the blobs are texts -/

/-- `txns_text` on the blob with object id `oid` (`blob oid` = its text), with the `&mut Settings` state `st`:
    the `parse` parameter of `Select.gitLoad` for journals that are texts -/
def gitText (cfg : Time.TsCfg) (blob : String → List Char) (st : Settings) (oid : String) :
    Outcome (List Txn × Settings) :=
  acceptText cfg st (blob oid)

/-- parsing the given entries in order with `gitText` is `mapMS (acceptText cfg)` over their texts (three-valued) -/
theorem parseAll_text (cfg : Time.TsCfg) (blob : String → List Char) : ∀ (sel : List Entry) (st : Settings),
    parseAll (gitText cfg blob) st sel =
      (mapMS (acceptText cfg) st (sel.map (fun e => blob e.oid))).map (fun r => (r.1.flatten, r.2)) := by
  intro sel
  induction sel with
  | nil => intro st; rfl
  | cons e t ih =>
    intro st
    simp only [parseAll, List.map_cons, mapMS]
    rw [show gitText cfg blob st e.oid = acceptText cfg st (blob e.oid) from rfl]
    cases h1 : acceptText cfg st (blob e.oid) with
    | err => rfl
    | undef => rfl
    | ok r =>
      obtain ⟨ts, st1⟩ := r
      simp only []
      rw [ih st1]
      cases mapMS (acceptText cfg) st1 (t.map (fun e => blob e.oid)) with
      | err => rfl
      | undef => rfl
      | ok r2 => obtain ⟨tss, st2⟩ := r2; simp [Outcome.map]

/-! ## 2. the equity export as characters, and its parse

`eqChars` is the export text in the vocabulary of `Model/Print.lean` (lists of characters); §4 shows that it is the
text `Tackler.equityText` writes.  A generated transaction prints like a transaction of the identity export
(`Print.headerL Layout.identity`, posting lines, one empty line) except that a posting line has exactly two blanks
between account and amount and no sign padding: it is the posting line of `C10.toPosting p` in the identity
layout when the amount is negative, and in the layout with a one-blank separator otherwise — so C06's per-line
round trip (`Syntax.parseTxnPosting_print`, any layout of the family) applies line by line. -/

open Print

/-- one posting line of the equity export (`postingLine` of `Model/Equity.lean` and its newline) -/
def eqPostingChars (p : EqPosting) : List Char :=
  [' ', ' ', ' '] ++ acctChars p.acct ++ [' ', ' '] ++ p.amount.toChars ++ commChars p.comm ++ ['\n']

/-- one generated transaction: header line, comment lines, posting lines, empty line -/
def eqTxnChars (t : EqTxn) : List Char :=
  headerL Layout.identity t.toRaw.header ++ (t.posts.map eqPostingChars).flatten ++ ['\n']

/-- the whole export -/
def eqChars (out : List EqTxn) : List Char := (out.map eqTxnChars).flatten

/-- the identity layout with one blank between account and amount -/
def sepOne : Layout := { Layout.identity with sep := [' '] }

theorem layoutOK_sepOne : LayoutOK sepOne := by
  refine ⟨?_, ?_, ?_, ?_, ?_, ?_, ?_, ?_, ?_, ?_⟩ <;> simp [sepOne, Print.Layout.identity, Blanks, isSpace, IsEol]

/-- the layout in which `C10.toPosting p` prints as the equity export prints `p` -/
def eqLayout (p : EqPosting) : Layout := if p.amount.isNeg then Layout.identity else sepOne

theorem layoutOK_eqLayout (p : EqPosting) : LayoutOK (eqLayout p) := by
  unfold eqLayout; split
  · exact layoutOK_identity
  · exact layoutOK_sepOne

/-- any division will do: an equity posting has no value position -/
def div0 : Dec → Dec → Dec := fun _ _ => Dec.zero

theorem eqPostingChars_eq (p : EqPosting) : eqPostingChars p = postingL (eqLayout p) div0 (C10.toPosting p) := by
  unfold eqPostingChars eqLayout postingL postingValueChars priceChars postCommentChars trailFor C10.toPosting
  by_cases hn : p.amount.isNeg = true
  · simp [hn, Layout.identity]
  · simp [hn, sepOne, Layout.identity]

theorem rawPostingOf_toPosting (p : EqPosting) : rawPostingOf div0 (C10.toPosting p) = p.toRaw := by
  unfold rawPostingOf unitOfPosting closingOfPosting C10.toPosting EqPosting.toRaw
  by_cases hc : p.comm = "" <;> simp [hc]

/-- lexical well-formedness of a generated posting: a valid account name, a representable amount, a valid
    commodity name or none -/
structure EqPostingWF (p : EqPosting) : Prop where
  acct : AcctLex p.acct
  amount : NumWF p.amount
  comm : p.comm = "" ∨ (IdentWF p.comm.toList ∧ isValidId p.comm.toList = true)

theorem postingWF_toPosting (p : EqPosting) (h : EqPostingWF p) : PostingWF div0 (C10.toPosting p) :=
  ⟨h.acct, h.amount, h.comm, fun e => e, fun _ hne => absurd rfl hne, fun _ e => by cases e⟩

/-- **posting line of the equity export** parses to the parse tree `EqPosting.toRaw` -/
theorem parseTxnPosting_eqPosting (p : EqPosting) (h : EqPostingWF p) (rest : List Char) :
    parseTxnPosting (eqPostingChars p ++ rest) = .ok p.toRaw rest := by
  rw [eqPostingChars_eq, ← rawPostingOf_toPosting]
  exact parseTxnPosting_print (eqLayout p) (layoutOK_eqLayout p) div0 _ (postingWF_toPosting p h) rest

theorem eqPostingChars_start (p : EqPosting) (h : EqPostingWF p) (r : List Char) :
    PostingStart (eqPostingChars p ++ r) := by
  rw [eqPostingChars_eq]
  exact postingL_start (eqLayout p) (layoutOK_eqLayout p) div0 _ (postingWF_toPosting p h) r

/-- **postings of a generated transaction**: all posting lines, then a blank line or the end -/
theorem parseTxnPostings_eq (p0 : EqPosting) (ps : List EqPosting) (hp : ∀ p ∈ p0 :: ps, EqPostingWF p)
    (rest : List Char) (hr : BlankOrEnd rest) :
    parseTxnPostings (((p0 :: ps).map eqPostingChars).flatten ++ rest) =
      .ok ((p0 :: ps).map EqPosting.toRaw, none) rest := by
  unfold parseTxnPostings
  rw [repeat1_list parseTxnPosting parseTxnPosting_cons eqPostingChars EqPosting.toRaw (fun _ => True) rest
    (parseTxnPosting_end hr) trivial p0 ps (fun p hpm r _ => ⟨trivial, parseTxnPosting_eqPosting p (hp p hpm) r⟩)]
  simp only [Res.bind_ok']
  rw [opt_of_bt (parseTxnLastPosting_end hr)]
  rfl

/-- lexical well-formedness of a generated transaction -/
structure EqTxnWF (t : EqTxn) : Prop where
  ts : TsOK t.ts = true
  desc : LineText t.desc.toList ∧ trimEnd t.desc.toList = t.desc.toList
  comments : ∀ c ∈ t.comments, LineText c.toList
  posts_ne : t.posts ≠ []
  posts : ∀ p ∈ t.posts, EqPostingWF p

theorem headerWF_toRaw (t : EqTxn) (h : EqTxnWF t) : HeaderWF t.toRaw.header := by
  refine ⟨fun c e => (by cases e), ?_, ⟨fun u e => (by cases e), fun g e => (by cases e), fun x e => (by cases e)⟩, ?_⟩
  · intro d e
    simp only [EqTxn.toRaw, Option.some.injEq] at e
    subst e
    exact h.desc
  · intro cs e
    simp only [EqTxn.toRaw, optList] at e
    split at e
    · cases e
    · cases e
      refine ⟨?_, h.comments⟩
      intro hn
      simp_all

theorem blankGap : ['\n'] = blankLines Layout.identity [[]] := by
  simp [blankLines, Layout.identity]

/-- **generated transaction**: parses to the parse tree `EqTxn.toRaw` -/
theorem parseTxn_eqTxn (cfg : Time.TsCfg) (t : EqTxn) (h : EqTxnWF t) (rest : List Char) (hr : TxnStartOrEnd rest) :
    parseTxn cfg (eqTxnChars t ++ rest) = .ok t.toRaw rest := by
  obtain ⟨p0, ps, hps⟩ := List.exists_cons_of_ne_nil h.posts_ne
  have hpw : ∀ p ∈ p0 :: ps, EqPostingWF p := by rw [← hps]; exact h.posts
  have hgb : ∀ l ∈ [([] : List Char)], Blanks l := by
    intro l hl; simp at hl; subst hl; intro c hc; cases hc
  have hform : eqTxnChars t ++ rest =
      headerL Layout.identity t.toRaw.header ++ (((p0 :: ps).map eqPostingChars).flatten ++
        (blankLines Layout.identity [[]] ++ rest)) := by
    rw [← blankGap]
    simp [eqTxnChars, hps]
  rw [hform]
  unfold parseTxn
  rw [cutErr_of_ok (parseTxnHeader_print cfg Layout.identity layoutOK_identity t.toRaw.header
    (ts_roundtrip cfg t.ts h.ts) (headerWF_toRaw t h) _ (by
      simp only [List.map_cons, List.flatten_cons, List.append_assoc]
      exact eqPostingChars_start p0 (hpw p0 List.mem_cons_self) _))]
  simp only [Res.bind_ok']
  rw [cutErr_of_ok (parseTxnPostings_eq p0 ps hpw _
    (blankLines_blankOrEnd Layout.identity layoutOK_identity [] [] (hgb [] (by simp)) rest))]
  simp only [Res.bind_ok']
  rw [alt_of_ok (multispace_print Layout.identity layoutOK_identity [] [] hgb rest hr)]
  simp only [Res.bind_ok']
  simp [EqTxn.toRaw, hps]

theorem eqTxnChars_form (t : EqTxn) (r : List Char) :
    ∃ rest', eqTxnChars t ++ r = pad 4 (tsY t.ts) ++ rest' := by
  have e : t.toRaw.header.ts = t.ts := rfl
  exact ⟨_, by rw [eqTxnChars, List.append_assoc, List.append_assoc, headerL_eq, e, rfc3339_eq]⟩

theorem eqTxnChars_start (t : EqTxn) (r : List Char) : TxnStartOrEnd (eqTxnChars t ++ r) := by
  obtain ⟨rest', hform⟩ := eqTxnChars_form t r
  obtain ⟨c, u, hc⟩ := List.exists_cons_of_ne_nil (pad_ne_nil 4 (tsY t.ts))
  have hd : isDecDigit c = true := by
    have := padLeft_all_digits 4 (tsY t.ts) c
    apply this
    show c ∈ pad 4 _
    rw [hc]; exact List.mem_cons_self
  rw [hform, hc]
  refine Or.inr ⟨c, u ++ rest', rfl, isSpace_of_digit c hd, ?_, ?_⟩
  · intro e; rw [e] at hd; revert hd; decide
  · intro e; rw [e] at hd; revert hd; decide

theorem eqTxnChars_ne_nil (t : EqTxn) : eqTxnChars t ≠ [] := by
  intro h
  obtain ⟨rest', hform⟩ := eqTxnChars_form t []
  rw [h] at hform
  have := pad_ne_nil 4 (tsY t.ts)
  cases hp : pad 4 (tsY t.ts) with
  | nil => exact this hp
  | cons c u => rw [hp] at hform; simp at hform

/-- **the whole export**: a non-empty list of well-formed generated transactions prints to a text that the journal
    grammar maps to exactly their parse trees `EqTxn.toRaw`, in order (any journal zone: the export prints offsets) -/
theorem parseJournal_eqChars (cfg : Time.TsCfg) (out : List EqTxn) (hne : out ≠ []) (hw : ∀ t ∈ out, EqTxnWF t) :
    parseJournal cfg (eqChars out) = some (out.map EqTxn.toRaw) := by
  obtain ⟨t0, tl, rfl⟩ := List.exists_cons_of_ne_nil hne
  obtain ⟨hrt, hq⟩ := repeatTill1_list (parseTxn cfg) (parseTxn_cons cfg) eqTxnChars EqTxn.toRaw TxnStartOrEnd (Or.inl rfl)
    t0 tl (fun t htm => ⟨eqTxnChars_ne_nil t, fun r hr => ⟨eqTxnChars_start t r, parseTxn_eqTxn cfg t (hw t htm) r hr⟩⟩)
  have hlead : opt multispace0LineEnding (eqChars (t0 :: tl)) = .ok none (((t0 :: tl).map eqTxnChars).flatten) := by
    apply opt_of_bt
    unfold multispace0LineEnding repeat1
    unfold eqChars
    rw [blankLine_stop hq]; rfl
  unfold parseJournal parseTxns
  rw [hlead]; simp only [Res.bind_ok']
  rw [hrt]

/-! ## 3. the text `equityText` writes is `eqChars`

`Model/Equity.lean` renders with `String`s (`rfc3339`, `postingLine`, `txnLines`, `allLines`, `equityText`); here its
characters are identified with the `Print` vocabulary, so that §2 applies to the exact text of the export. -/


theorem dropWhile_append_of_nil {α} (p : α → Bool) : ∀ (a b : List α), a.dropWhile p = [] → (a ++ b).dropWhile p = b.dropWhile p := by
  intro a
  induction a with
  | nil => intro b _; rfl
  | cons x t ih =>
    intro b h
    simp only [List.dropWhile_cons] at h
    split at h
    · rename_i hx; simp only [List.cons_append, List.dropWhile_cons, hx, if_true]; exact ih b h
    · cases h

theorem dropWhile_append_of_ne_nil {α} (p : α → Bool) : ∀ (a b : List α), a.dropWhile p ≠ [] → (a ++ b).dropWhile p = a.dropWhile p ++ b := by
  intro a
  induction a with
  | nil => intro b h; exact absurd rfl h
  | cons x t ih =>
    intro b h
    simp only [List.dropWhile_cons] at h
    simp only [List.cons_append, List.dropWhile_cons]
    split
    · rename_i hx; rw [if_pos hx] at h; exact ih b h
    · rfl

theorem dropEndWhile_eq (p : Char → Bool) : ∀ l : List Char, dropEndWhile p l = (l.reverse.dropWhile p).reverse := by
  intro l
  induction l with
  | nil => rfl
  | cons c t ih =>
    simp only [dropEndWhile, List.reverse_cons]
    rw [ih]
    cases h : (t.reverse.dropWhile p).reverse with
    | nil =>
      have h' : t.reverse.dropWhile p = [] := by simpa using h
      rw [dropWhile_append_of_nil p _ _ h']
      simp only [List.dropWhile_cons, List.dropWhile_nil]
      split <;> simp
    | cons d r =>
      have h' : t.reverse.dropWhile p ≠ [] := by intro e; rw [e] at h; cases h
      rw [dropWhile_append_of_ne_nil p _ _ h', List.reverse_append, h]
      rfl

theorem dropTrailingZeros_eq (l : List Char) : dropTrailingZeros l = dropEndWhile (fun c => c == '0') l :=
  (dropEndWhile_eq _ l).symm

theorem pad2_toList (n : Nat) : (pad2 n).toList = pad 2 n := by simp [pad2, pad]
theorem pad4_toList (n : Nat) : (pad4 n).toList = pad 4 n := by simp [pad4, pad]

theorem fracStr_toList (ns : Nat) : (fracStr ns).toList = fracChars ns := by
  unfold fracStr fracChars
  split
  · rfl
  · simp [dropTrailingZeros_eq, pad]

theorem offsetStr_toList (off : Int) : (offsetStr off).toList = offsetChars off := by
  unfold offsetStr offsetChars
  simp only [String.toList_append, pad2_toList]
  split <;> split <;> simp [pad2_toList]



/-- the timestamp text of the equity export is `Print.rfc3339` -/
theorem eq_rfc3339_toList (ts : Ts) (s : String) (h : Tackler.rfc3339 ts = some s) : s.toList = Print.rfc3339 ts := by
  unfold Tackler.rfc3339 at h
  generalize hc : Time.civilAt ts.ns ts.offset = c at h
  obtain ⟨y, m, d, hh, mi, sec, ns⟩ := c
  simp only at h
  split at h
  · exact absurd h (by simp)
  · have e := Option.some.inj h
    subst e
    simp [Print.rfc3339, hc, pad2_toList, pad4_toList, fracStr_toList, offsetStr_toList]

theorem eq_rfc3339_some (ts : Ts) (h : TsOK ts = true) : ∃ s, Tackler.rfc3339 ts = some s := by
  have hneg : ¬ (Time.civilAt ts.ns ts.offset).1 < 0 := by
    intro hn
    have := C06.negative_year_not_tsOK ts hn
    rw [h] at this; cases this
  have hy := (C06.fields_of_tsOK ts h).1
  unfold Tackler.rfc3339
  generalize hc : Time.civilAt ts.ns ts.offset = c at hneg hy
  obtain ⟨y, m, d, hh, mi, sec, ns⟩ := c
  simp only at hneg hy ⊢
  rw [if_neg (by omega)]
  exact ⟨_, rfl⟩

theorem acctName_chars (p : Path) : (acctName p).toList = acctChars p := by
  rw [KeyOrder.acctName_toList]; rfl

theorem postingLine_toList (p : EqPosting) : (postingLine p ++ "\n").toList = eqPostingChars p := by
  unfold postingLine eqPostingChars eqIndent commChars Dec.toString
  by_cases hc : p.comm = "" <;> simp [hc, acctName_chars]



theorem commentLines_optList (cs : List String) :
    commentLines Layout.identity (optList cs) = (cs.map (commentLine Layout.identity)).flatten := by
  unfold optList
  cases cs with
  | nil => rfl
  | cons c t => rfl

theorem commentLine_toList (c : String) : (eqIndent ++ "; " ++ c ++ "\n").toList = commentLine Layout.identity c := by
  simp [commentLine, eqIndent, Layout.identity]

/-- the lines of one generated transaction, each with its newline, are `eqTxnChars` -/
theorem txnLines_chars (t : EqTxn) (ls : List String) (h : txnLines t = some ls) :
    ((ls.map (· ++ "\n")).map String.toList).flatten = eqTxnChars t := by
  unfold txnLines at h
  split at h
  · exact absurd h (by simp)
  · rename_i tss hts
    have e := Option.some.inj h
    subst e
    have hts' := eq_rfc3339_toList t.ts tss hts
    have hc : ∀ cs : List String, ((cs.map (fun c => eqIndent ++ "; " ++ c)).map (fun l => (l ++ "\n").toList)).flatten
        = (cs.map (commentLine Layout.identity)).flatten := by
      intro cs
      rw [List.map_map]
      congr 1
      apply List.map_congr_left
      intro c _
      exact commentLine_toList c
    have hp : ∀ ps : List EqPosting, ((ps.map postingLine).map (fun l => (l ++ "\n").toList)).flatten
        = (ps.map eqPostingChars).flatten := by
      intro ps
      rw [List.map_map]
      congr 1
      apply List.map_congr_left
      intro p _
      exact postingLine_toList p
    simp only [List.map_append, List.map_map, List.flatten_append, List.map_cons, List.map_nil, List.flatten_cons,
      List.flatten_nil, List.append_nil, Function.comp_def] at hc hp ⊢
    rw [hc, hp]
    simp [eqTxnChars, headerL, EqTxn.toRaw, hts', codeChars, descChars, Layout.identity, metaItem, uuidLine,
      locationLine, tagsLine]
    exact (commentLines_optList t.comments).symm

theorem allLines_nil : allLines [] = some [] := rfl

/-- (`allLines`' own equation lemmas are too expensive to generate: stated with `Option.bind`) -/
theorem allLines_cons (t : EqTxn) (r : List EqTxn) :
    allLines (t :: r) = (txnLines t).bind (fun l => (allLines r).bind (fun ls => some (l ++ ls))) := by
  cases h : txnLines t with
  | none =>
    show (match txnLines t with
      | none => none
      | some l => match allLines r with
        | none => none
        | some ls => some (l ++ ls)) = _
    rw [h]; rfl
  | some l =>
    show (match txnLines t with
      | none => none
      | some l => match allLines r with
        | none => none
        | some ls => some (l ++ ls)) = _
    rw [h]
    cases allLines r <;> rfl

theorem allLines_chars : ∀ (out : List EqTxn) (ls : List String), allLines out = some ls →
    ((ls.map (· ++ "\n")).map String.toList).flatten = eqChars out := by
  intro out
  induction out with
  | nil =>
    intro ls h
    rw [allLines_nil] at h
    have e := Option.some.inj h
    subst e
    simp [eqChars]
  | cons t rest ih =>
    intro ls h
    rw [allLines_cons] at h
    cases hl : txnLines t with
    | none => rw [hl] at h; exact absurd h (by simp)
    | some l =>
      cases hls' : allLines rest with
      | none => rw [hl, hls'] at h; exact absurd h (by simp)
      | some ls' =>
        rw [hl, hls'] at h
        have e : l ++ ls' = ls := by simpa using h
        subst e
        simp only [List.map_append, List.flatten_append, eqChars, List.map_cons, List.flatten_cons]
        rw [txnLines_chars t l hl]
        congr 1
        exact ih ls' hls'

/-- **the text `equityText` writes is `eqChars`** -/
theorem equityText_chars (out : List EqTxn) (s : String) (h : equityText out = some s) : s.toList = eqChars out := by
  unfold equityText at h
  split at h
  · exact absurd h (by simp)
  · rename_i ls hls
    have e := Option.some.inj h
    subst e
    rw [← allLines_chars out ls hls]
    simp [List.flatMap, List.map_map, Function.comp_def]

theorem txnLines_some (t : EqTxn) (h : TsOK t.ts = true) : ∃ ls, txnLines t = some ls := by
  obtain ⟨s, hs⟩ := eq_rfc3339_some t.ts h
  exact ⟨_, by unfold txnLines; rw [hs]⟩

theorem allLines_some : ∀ (out : List EqTxn), (∀ t ∈ out, TsOK t.ts = true) → ∃ ls, allLines out = some ls := by
  intro out
  induction out with
  | nil => intro _; exact ⟨[], allLines_nil⟩
  | cons t rest ih =>
    intro h
    obtain ⟨l, hl⟩ := txnLines_some t (h t List.mem_cons_self)
    obtain ⟨ls, hls⟩ := ih (fun x hx => h x (List.mem_cons_of_mem _ hx))
    exact ⟨l ++ ls, by rw [allLines_cons, hl, hls]; rfl⟩

/-- the export of transactions with printable timestamps has a text -/
theorem equityText_some (out : List EqTxn) (h : ∀ t ∈ out, TsOK t.ts = true) : ∃ s, equityText out = some s := by
  obtain ⟨ls, hls⟩ := allLines_some out h
  exact ⟨_, by unfold equityText; rw [hls]⟩

end E2E
end Tackler

import TacklerModel.Model.Output
/-!
# Lemmas about the buffered writer of `Model/Output.lean`

Invariant: as long as no write failed, `file ++ buffer` is exactly what the reporter has issued so far and the
file is within its limit; after a failed write the file holds exactly the first `limit` bytes of everything that was
issued, and nothing can be added any more.  Everything is proved for every capacity, chunking and limit.
-/
namespace Tackler
namespace Output

/-! ### limits -/

theorem fits_append_false {l : Option Nat} {a : Bytes} (b : Bytes) (h : fits l a = false) :
    fits l (a ++ b) = false := by
  cases l with
  | none => simp [fits] at h
  | some k => simp [fits] at h ⊢; omega

theorem lim_append_of_not_fits {l : Option Nat} {a : Bytes} (b : Bytes) (h : fits l a = false) :
    lim l (a ++ b) = lim l a := by
  cases l with
  | none => simp [fits] at h
  | some k =>
    simp [fits] at h
    simp only [lim]
    rw [List.take_append_of_le_length (by omega)]

theorem lim_of_fits {l : Option Nat} {a : Bytes} (h : fits l a = true) : lim l a = a := by
  cases l with
  | none => rfl
  | some k => simp [fits] at h; simp [lim, List.take_of_length_le h]

theorem fits_of_append {l : Option Nat} {a : Bytes} (b : Bytes) (h : fits l (a ++ b) = true) :
    fits l a = true := by
  cases hf : fits l a with
  | true => rfl
  | false => rw [fits_append_false b hf] at h; cases h

/-! ### the file -/

/-- a file never holds more than its limit -/
def Sink.Inv (s : Sink) : Prop := ∀ k, s.limit = some k → s.data.length ≤ k

/-- the file is at its limit: nothing can be added -/
def Sink.Full (s : Sink) : Prop := ∃ k, s.limit = some k ∧ s.data.length = k

theorem Sink.Full.inv {s : Sink} (h : s.Full) : s.Inv := by
  intro k hk
  obtain ⟨k', hk', hl⟩ := h
  rw [hk] at hk'
  cases hk'
  omega

theorem sink_writeAll_spec (s : Sink) (bs : Bytes) (hi : s.Inv) :
    (s.writeAll bs).1.data = lim s.limit (s.data ++ bs) ∧
    (s.writeAll bs).2.2 = fits s.limit (s.data ++ bs) ∧
    (s.writeAll bs).1.limit = s.limit ∧
    (s.writeAll bs).1.Inv ∧
    ((s.writeAll bs).2.2 = false → (s.writeAll bs).1.Full) ∧
    ((s.writeAll bs).2.2 = true → (s.writeAll bs).2.1 = []) := by
  unfold Sink.writeAll
  cases hl : s.limit with
  | none =>
    simp [lim, fits, Sink.Inv]
  | some k =>
    have hk := hi k hl
    by_cases hle : s.data.length + bs.length ≤ k
    · simp only [hle, if_true]
      refine ⟨?_, ?_, (by first | rfl | trivial), ?_, ?_, ?_⟩
      · simp only [lim]
        rw [List.take_of_length_le (by simp; omega)]
      · simp [fits]; omega
      · intro k' hk'; cases hk'; simp; omega
      · intro h; cases h
      · intro _; first | rfl | trivial
    · simp only [hle, if_false]
      refine ⟨?_, ?_, (by first | rfl | trivial), ?_, ?_, ?_⟩
      · simp only [lim]
        rw [List.take_append]
        rw [List.take_of_length_le hk]
      · simp [fits]; omega
      · intro k' hk'; cases hk'; simp [List.length_take]; omega
      · intro _; exact ⟨k, rfl, by simp [List.length_take]; omega⟩
      · intro h; cases h

/-- a full file stays as it is, whatever is written -/
theorem sink_writeAll_full (s : Sink) (bs : Bytes) (hf : s.Full) :
    (s.writeAll bs).1.data = s.data ∧ (s.writeAll bs).1.Full := by
  obtain ⟨k, hk, hl⟩ := hf
  unfold Sink.writeAll
  simp only [hk]
  by_cases hle : s.data.length + bs.length ≤ k
  · simp only [hle, if_true]
    have : bs = [] := by
      cases bs with
      | nil => rfl
      | cons b t => simp at hle; omega
    subst this
    simp
    exact ⟨k, rfl, by simpa using hl⟩
  · simp only [hle, if_false]
    have h0 : k - s.data.length = 0 := by omega
    simp [h0]
    exact ⟨k, rfl, by simpa using hl⟩

/-! ### the buffered writer -/

/-- everything the writer has accepted and not lost: file, then buffer -/
def BufWriter.all (w : BufWriter) : Bytes := w.inner.data ++ w.buf

structure BufWriter.Inv (w : BufWriter) : Prop where
  sink : w.inner.Inv
  room : w.buf.length ≤ w.cap

theorem flushBuf_spec (w : BufWriter) (hi : w.inner.Inv) :
    w.flushBuf.1.inner.limit = w.inner.limit ∧ w.flushBuf.1.cap = w.cap ∧ w.flushBuf.1.inner.Inv ∧
    (w.flushBuf.2 = true → w.flushBuf.1.inner.data = w.all ∧ w.flushBuf.1.buf = [] ∧ fits w.inner.limit w.all = true) ∧
    (w.flushBuf.2 = false → w.flushBuf.1.inner.data = lim w.inner.limit w.all ∧ fits w.inner.limit w.all = false ∧
       w.flushBuf.1.inner.Full) := by
  unfold BufWriter.flushBuf BufWriter.all
  cases hb : w.buf with
  | nil =>
    simp only [List.append_nil]
    refine ⟨(by first | rfl | trivial), (by first | rfl | trivial), hi, ?_, ?_⟩
    · intro _
      refine ⟨(by first | rfl | trivial), hb, ?_⟩
      cases hl : w.inner.limit with
      | none => rfl
      | some k => simp [fits]; exact hi k hl
    · intro h; cases h
  | cons b bs =>
    obtain ⟨h1, h2, h3, h4, h5, h6⟩ := sink_writeAll_spec w.inner (b :: bs) hi
    simp only
    refine ⟨h3, (by first | rfl | trivial), h4, ?_, ?_⟩
    · intro hok
      have hrem := h6 hok
      rw [h2] at hok
      exact ⟨by rw [h1, lim_of_fits hok], hrem, hok⟩
    · intro hf
      refine ⟨h1, ?_, h5 hf⟩
      rw [← h2]; exact hf

/-- dropping the writer leaves the first `limit` bytes of everything accepted -/
theorem drop_spec (w : BufWriter) (hi : w.inner.Inv) : w.drop.data = lim w.inner.limit w.all := by
  obtain ⟨_, _, _, hok, hfail⟩ := flushBuf_spec w hi
  unfold BufWriter.drop
  cases h : w.flushBuf.2 with
  | true => obtain ⟨h1, _, h3⟩ := hok h; rw [h1, lim_of_fits h3]
  | false => exact (hfail h).1

/-- a writer over a full file drops to that file -/
theorem drop_full (w : BufWriter) (hf : w.inner.Full) : w.drop.data = w.inner.data := by
  unfold BufWriter.drop BufWriter.flushBuf
  cases hb : w.buf with
  | nil => rfl
  | cons b bs => simp only; exact (sink_writeAll_full w.inner (b :: bs) hf).1

theorem writeThrough_spec (w : BufWriter) (c : Bytes) (hi : w.Inv)
    (hroom : c.length ≥ w.cap → w.buf = []) (hfit : c.length < w.cap → w.buf.length + c.length ≤ w.cap) :
    (w.writeThrough c).1.inner.limit = w.inner.limit ∧ (w.writeThrough c).1.cap = w.cap ∧
    ((w.writeThrough c).2 = true → (w.writeThrough c).1.all = w.all ++ c ∧ (w.writeThrough c).1.Inv) ∧
    ((w.writeThrough c).2 = false → (w.writeThrough c).1.drop.data = lim w.inner.limit (w.all ++ c) ∧
        fits w.inner.limit (w.all ++ c) = false) := by
  unfold BufWriter.writeThrough
  by_cases hc : c.length ≥ w.cap
  · have hb := hroom hc
    obtain ⟨h1, h2, h3, h4, h5, _⟩ := sink_writeAll_spec w.inner c hi.sink
    simp only [hc, if_true]
    refine ⟨h3, (by first | rfl | trivial), ?_, ?_⟩
    · intro hok
      rw [h2] at hok
      refine ⟨?_, ⟨h4, hi.room⟩⟩
      simp only [BufWriter.all, hb, List.append_nil]
      rw [h1, lim_of_fits hok]
    · intro hf
      have hfull := h5 hf
      refine ⟨?_, ?_⟩
      · rw [drop_full _ hfull]
        simp only [BufWriter.all, hb, List.append_nil]
        exact h1
      · simp only [BufWriter.all, hb, List.append_nil]
        rw [← h2]; exact hf
  · simp only [hc, if_false]
    refine ⟨(by first | rfl | trivial), (by first | rfl | trivial), ?_, ?_⟩
    · intro _
      refine ⟨by simp [BufWriter.all], ⟨hi.sink, ?_⟩⟩
      have := hfit (by omega)
      simp; omega
    · intro h; cases h

theorem writeAll_spec (w : BufWriter) (c : Bytes) (hi : w.Inv) :
    (w.writeAll c).1.inner.limit = w.inner.limit ∧ (w.writeAll c).1.cap = w.cap ∧
    ((w.writeAll c).2 = true → (w.writeAll c).1.all = w.all ++ c ∧ (w.writeAll c).1.Inv) ∧
    ((w.writeAll c).2 = false → (w.writeAll c).1.drop.data = lim w.inner.limit (w.all ++ c) ∧
        fits w.inner.limit (w.all ++ c) = false) := by
  have hroom := hi.room
  unfold BufWriter.writeAll
  by_cases hfast : c.length < w.cap - w.buf.length
  · simp only [hfast, if_true]
    refine ⟨(by first | rfl | trivial), (by first | rfl | trivial), ?_, ?_⟩
    · intro _
      exact ⟨by simp [BufWriter.all], ⟨hi.sink, by simp; omega⟩⟩
    · intro h; cases h
  · simp only [hfast, if_false]
    unfold BufWriter.writeAllCold
    by_cases hbig : c.length > w.cap - w.buf.length
    · simp only [hbig, if_true]
      obtain ⟨f1, f2, f3, fok, ffail⟩ := flushBuf_spec w hi.sink
      cases hf : w.flushBuf.2 with
      | true =>
        simp only [if_true]
        obtain ⟨g1, g2, g3⟩ := fok hf
        have hinv : w.flushBuf.1.Inv := ⟨f3, by rw [g2]; simp⟩
        obtain ⟨t1, t2, t3, t4⟩ := writeThrough_spec w.flushBuf.1 c hinv (fun _ => g2)
          (fun h => by rw [g2]; simp; omega)
        have hall : w.flushBuf.1.all = w.all := by simp [BufWriter.all, g1, g2]
        rw [hall] at t3
        rw [f1, hall] at t4
        rw [f1] at t1
        rw [f2] at t2
        exact ⟨t1, t2, t3, t4⟩
      | false =>
        simp only [Bool.false_eq_true, if_false]
        obtain ⟨g1, g2, g3⟩ := ffail hf
        refine ⟨f1, f2, ?_, ?_⟩
        · intro h; cases h
        · intro _
          refine ⟨?_, fits_append_false c g2⟩
          rw [drop_full _ g3, g1, lim_append_of_not_fits c g2]
    · simp only [hbig, if_false]
      exact writeThrough_spec w c hi (fun h => by
          have : w.buf.length = 0 := by omega
          exact List.length_eq_zero_iff.mp this) (fun h => by omega)

theorem writeChunks_spec (cs : List Bytes) : ∀ (w : BufWriter), w.Inv →
    (writeChunks w cs).1.inner.limit = w.inner.limit ∧ (writeChunks w cs).1.cap = w.cap ∧
    ((writeChunks w cs).2 = true → (writeChunks w cs).1.all = w.all ++ cs.flatten ∧ (writeChunks w cs).1.Inv) ∧
    ((writeChunks w cs).2 = false → (writeChunks w cs).1.drop.data = lim w.inner.limit (w.all ++ cs.flatten) ∧
        fits w.inner.limit (w.all ++ cs.flatten) = false) := by
  induction cs with
  | nil =>
    intro w hi
    simp only [writeChunks, List.flatten_nil, List.append_nil]
    refine ⟨(by first | rfl | trivial), (by first | rfl | trivial), fun _ => ⟨(by first | rfl | trivial), hi⟩, fun h => by cases h⟩
  | cons c cs ih =>
    intro w hi
    obtain ⟨s1, s2, sok, sfail⟩ := writeAll_spec w c hi
    simp only [writeChunks, List.flatten_cons]
    cases hr : (w.writeAll c).2 with
    | true =>
      simp only [if_true]
      obtain ⟨a1, a2⟩ := sok hr
      obtain ⟨i1, i2, iok, ifail⟩ := ih (w.writeAll c).1 a2
      rw [s1] at i1
      rw [s2] at i2
      rw [a1, List.append_assoc] at iok
      rw [s1, a1, List.append_assoc] at ifail
      exact ⟨i1, i2, iok, ifail⟩
    | false =>
      simp only [Bool.false_eq_true, if_false]
      obtain ⟨a1, a2⟩ := sfail hr
      refine ⟨s1, s2, fun h => by simp at h, fun _ => ?_⟩
      rw [← List.append_assoc]
      exact ⟨by rw [a1, lim_append_of_not_fits _ a2], fits_append_false _ a2⟩

end Output
end Tackler

#!/bin/sh
# Runs the repository's own test suite with the verification guard OFF (no --cfg tackler_verif).
# Expected: 243 passed, 3 failed (the three git_txns tests need a fixture that is absent from the pinned tree).
cd /repo || exit 2
CARGO_NET_OFFLINE=true cargo test --workspace --no-fail-fast --offline --lib --bins --tests 2>&1 | tee /tmp/tk_baseline.log | grep -E "^test result" 
passed=$(grep -E "^test result" /tmp/tk_baseline.log | sed -E 's/.* ([0-9]+) passed.*/\1/' | paste -sd+ | bc)
failed=$(grep -E "^test .* FAILED$" /tmp/tk_baseline.log | sort -u | wc -l)
echo "passed=$passed failed=$failed"
grep -E "^test .* FAILED$" /tmp/tk_baseline.log | sort -u
rm -f /tmp/tk_baseline.log
[ "$passed" = "243" ]

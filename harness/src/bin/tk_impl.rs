//! tk_impl: line-protocol driver over the real tackler library.
//! One JSON case per input line, one JSON answer per output line.
use serde_json::{Value, json};
use std::io::{BufRead, Write};
use std::panic::{AssertUnwindSafe, catch_unwind};
use std::path::PathBuf;

fn main() {
    // silence panic messages (they are reported in the answer line)
    std::panic::set_hook(Box::new(|_| {}));
    let base = std::env::var("TK_TMP").unwrap_or("/verif/.build/tmp".to_string());
    let dir = PathBuf::from(base).join(format!("impl-{}", std::process::id()));
    let _ = std::fs::create_dir_all(&dir);
    let stdin = std::io::stdin();
    let stdout = std::io::stdout();
    let mut out = std::io::BufWriter::new(stdout.lock());
    for line in stdin.lock().lines() {
        let line = match line {
            Ok(l) => l,
            Err(_) => break,
        };
        if line.trim().is_empty() {
            continue;
        }
        let ans = match serde_json::from_str::<Value>(&line) {
            Ok(case) => match catch_unwind(AssertUnwindSafe(|| tk_harness::ops::dispatch(&case, &dir))) {
                Ok(v) => v,
                Err(_) => json!({"r": "PANIC", "at": "dispatch"}),
            },
            Err(e) => json!({"r": "BADCASE", "msg": e.to_string()}),
        };
        let _ = writeln!(out, "{}", ans);
        let _ = out.flush();
    }
    let _ = std::fs::remove_dir_all(&dir);
}

//! Shared helpers of the harness: JSON accessors, configuration writer, settings construction,
//! canonical JSON views of transactions, panic guard.
use serde_json::{Value, json};
use std::panic::{AssertUnwindSafe, catch_unwind};
use std::path::{Path, PathBuf};

use tackler_core::config::Config;
use tackler_core::config::overlaps::OverlapConfig;
use tackler_core::export::{EquityExporter, EquitySettings, Export, IdentityExporter};
use tackler_core::kernel::Settings;
use tackler_core::kernel::{BalanceGroupSettings, RegisterSettings};
use tackler_core::model::TxnSet;
use tackler_core::report::{BalanceGroupReporter, BalanceReporter, RegisterReporter, Report};
use tackler_core::verif_hooks as vh;

pub fn s(v: &Value, k: &str) -> Option<String> {
    v.get(k).and_then(|x| x.as_str()).map(String::from)
}
pub fn b(v: &Value, k: &str, d: bool) -> bool {
    v.get(k).and_then(|x| x.as_bool()).unwrap_or(d)
}
pub fn strs(v: &Value, k: &str) -> Option<Vec<String>> {
    v.get(k).and_then(|x| x.as_array()).map(|a| {
        a.iter()
            .map(|e| e.as_str().unwrap_or("").to_string())
            .collect()
    })
}
pub fn toml_list(v: &[String]) -> String {
    let items: Vec<String> = v.iter().map(|x| toml_str(x)).collect();
    format!("[{}]", items.join(", "))
}
pub fn toml_str(x: &str) -> String {
    // TOML basic string with escapes
    let mut o = String::from("\"");
    for c in x.chars() {
        match c {
            '"' => o.push_str("\\\""),
            '\\' => o.push_str("\\\\"),
            '\n' => o.push_str("\\n"),
            '\t' => o.push_str("\\t"),
            '\r' => o.push_str("\\r"),
            c if (c as u32) < 0x20 => o.push_str(&format!("\\u{:04X}", c as u32)),
            c => o.push(c),
        }
    }
    o.push('"');
    o
}

/// Write the configuration files for a case into `dir`, return the path of tackler.toml
pub fn write_config(cfg: &Value, dir: &Path) -> Result<PathBuf, String> {
    std::fs::create_dir_all(dir).map_err(|e| e.to_string())?;
    let strict = b(cfg, "strict", false);
    let audit = b(cfg, "audit", false);
    let hash = s(cfg, "hash").unwrap_or("SHA-256".into());
    let default_time = s(cfg, "default_time").unwrap_or("00:00:00".into());
    let tz = match cfg.get("tz") {
        Some(t) if t.get("name").is_some() => {
            format!("{{ name = {} }}", toml_str(t["name"].as_str().unwrap_or("UTC")))
        }
        Some(t) if t.get("offset").is_some() => {
            format!("{{ offset = {} }}", toml_str(t["offset"].as_str().unwrap_or("+00:00")))
        }
        _ => "{ name = \"UTC\" }".to_string(),
    };
    let accounts_path = match strs(cfg, "accounts") {
        Some(a) => {
            std::fs::write(dir.join("accounts.toml"), format!("accounts = {}\n", toml_list(&a)))
                .map_err(|e| e.to_string())?;
            "accounts.toml"
        }
        None => "none",
    };
    let comm_path = match strs(cfg, "commodities") {
        Some(c) => {
            let pe = match cfg.get("permit_empty").and_then(|x| x.as_bool()) {
                Some(v) => format!("permit-empty-commodity = {}\n", v),
                None => String::new(),
            };
            std::fs::write(
                dir.join("commodities.toml"),
                format!("{}commodities = {}\n", pe, toml_list(&c)),
            )
            .map_err(|e| e.to_string())?;
            "commodities.toml"
        }
        None => "none",
    };
    let tags_path = match strs(cfg, "tags") {
        Some(t) => {
            std::fs::write(dir.join("tags.toml"), format!("tags = {}\n", toml_list(&t)))
                .map_err(|e| e.to_string())?;
            "tags.toml"
        }
        None => "none",
    };
    let report_tz = s(cfg, "report_tz").unwrap_or("UTC".into());
    let scale_min = cfg.get("scale_min").and_then(|x| x.as_u64()).unwrap_or(0);
    let scale_max = cfg.get("scale_max").and_then(|x| x.as_u64()).unwrap_or(28);
    let sel = |k: &str| -> String {
        match strs(cfg, k) {
            Some(v) => format!(", accounts = {}", toml_list(&v)),
            None => String::new(),
        }
    };
    let global_sel = match strs(cfg, "sel_global") {
        Some(v) => format!("accounts = {}\n", toml_list(&v)),
        None => String::new(),
    };
    let report_comm = match s(cfg, "report_commodity") {
        Some(c) => format!("commodity = {}\n", toml_str(&c)),
        None => String::new(),
    };
    let group_by = s(cfg, "group_by").unwrap_or("month".into());
    let ts_style = s(cfg, "ts_style").unwrap_or("full".into());
    let equity_account = s(cfg, "equity_account").unwrap_or("Equity:Balance".into());
    let export_targets = toml_list(&strs(cfg, "export_targets").unwrap_or_default());
    let price = match cfg.get("price") {
        Some(p) if !p.is_null() => {
            let db = p.get("db").and_then(|x| x.as_str()).unwrap_or("");
            std::fs::write(dir.join("price.db"), db).map_err(|e| e.to_string())?;
            format!(
                "[price]\ndb-path = \"price.db\"\nlookup-type = {}\n",
                toml_str(p.get("lookup").and_then(|x| x.as_str()).unwrap_or("none"))
            )
        }
        _ => String::new(),
    };
    let text = format!(
        "[kernel]\nstrict = {strict}\naudit = {{ mode = {audit}, hash = {hash} }}\n\
         timestamp = {{ default-time = {default_time}, timezone = {tz} }}\n\
         input = {{ storage = \"fs\", fs = {{ dir = \"txns\", suffix = \"txn\" }} }}\n\
         {price}\
         [transaction]\naccounts = {{ path = \"{accounts_path}\" }}\n\
         commodities = {{ path = \"{comm_path}\" }}\ntags = {{ path = \"{tags_path}\" }}\n\
         [report]\nreport-timezone = {report_tz}\nscale = {{ min = {scale_min}, max = {scale_max} }}\n\
         {global_sel}{report_comm}targets = [ \"balance\" ]\n\
         balance = {{ title = \"BALANCE\"{bal_sel} }}\n\
         balance-group = {{ title = \"BALANCE GROUP\", group-by = {group_by}{balgrp_sel} }}\n\
         register = {{ title = \"REGISTER\", timestamp-style = {ts_style}{reg_sel} }}\n\
         [export]\ntargets = {export_targets}\nequity = {{ equity-account = {equity_account}{eq_sel} }}\n",
        hash = toml_str(&hash),
        report_tz = toml_str(&report_tz),
        group_by = toml_str(&group_by),
        ts_style = toml_str(&ts_style),
        equity_account = toml_str(&equity_account),
        bal_sel = sel("sel_balance"),
        balgrp_sel = sel("sel_balgrp"),
        reg_sel = sel("sel_register"),
        eq_sel = sel("sel_equity"),
    );
    let p = dir.join("tackler.toml");
    std::fs::write(&p, text).map_err(|e| e.to_string())?;
    Ok(p)
}

pub fn make_settings(cfg: &Value, dir: &Path) -> Result<Settings, String> {
    let p = write_config(cfg, dir)?;
    let c = Config::from(&p).map_err(|e| format!("config: {e}"))?;
    let mut ov = OverlapConfig::default();
    if let Some(p) = cfg.get("price") {
        if let Some(bt) = p.get("before").and_then(|x| x.as_str()) {
            ov.price.before_time = Some(bt.to_string());
        }
    }
    // command-line style overlaps of the mode switches (`--strict.mode`, `--audit.mode`)
    if let Some(v) = cfg.get("ov_strict").and_then(|x| x.as_bool()) {
        ov.strict.mode = Some(v);
    }
    if let Some(v) = cfg.get("ov_audit").and_then(|x| x.as_bool()) {
        ov.audit.mode = Some(v);
    }
    // command-line style overlaps of the reporting options (`--accounts`, `--group-by`)
    if let Some(a) = cfg.get("ov_accounts").and_then(|x| x.as_array()) {
        ov.report.account_overlap =
            Some(a.iter().filter_map(|x| x.as_str().map(|s| s.to_string())).collect());
    }
    if let Some(g) = cfg.get("ov_group_by").and_then(|x| x.as_str()) {
        ov.report.group_by = Some(g.to_string());
    }
    Settings::try_from(c, ov).map_err(|e| format!("settings: {e}"))
}

pub fn dec_s(d: &rust_decimal::Decimal) -> Value {
    Value::String(d.to_string())
}

pub fn txn_json(t: &tackler_core::model::Transaction) -> Value {
    let h = vh::txn_header(t);
    let ts = &h.timestamp;
    let ns: i128 = ts.timestamp().as_nanosecond();
    let posts: Vec<Value> = vh::txn_postings(t)
        .iter()
        .map(|p| {
            json!({"acct": p.account, "comm": p.commodity, "amount": dec_s(&p.amount),
               "txn_amount": dec_s(&p.txn_amount), "txn_comm": p.txn_commodity,
               "is_total": p.is_total_amount, "comment": p.comment})
        })
        .collect();
    json!({
        "ts": {"ns": ns.to_string(), "off": ts.offset().seconds()},
        "code": h.code, "desc": h.description,
        "uuid": h.uuid.map(|u| u.to_string()),
        "loc": h.location.as_ref().map(|g| json!({"lat": dec_s(&g.lat), "lon": dec_s(&g.lon), "alt": g.alt.as_ref().map(dec_s)})),
        "tags": h.tags.as_ref().map(|t| t.iter().map(|x| x.to_string()).collect::<Vec<_>>()),
        "comments": h.comments,
        "posts": posts,
    })
}

pub fn guarded<F: FnOnce() -> Result<Value, String>>(f: F) -> Value {
    match catch_unwind(AssertUnwindSafe(f)) {
        Ok(Ok(v)) => json!({"r": "OK", "v": v}),
        Ok(Err(e)) => json!({"r": "ERR", "msg": e}),
        Err(p) => {
            let msg = if let Some(s) = p.downcast_ref::<&str>() {
                s.to_string()
            } else if let Some(s) = p.downcast_ref::<String>() {
                s.clone()
            } else {
                "panic".to_string()
            };
            json!({"r": "PANIC", "msg": msg})
        }
    }
}

pub fn text_of<F: FnOnce(&mut Vec<u8>) -> Result<(), tackler_core::tackler::Error>>(f: F) -> Value {
    guarded(|| {
        let mut w: Vec<u8> = Vec::new();
        f(&mut w).map_err(|e| e.to_string())?;
        Ok(Value::String(String::from_utf8_lossy(&w).to_string()))
    })
}

pub fn outputs(case: &Value, settings: &mut Settings, set: &TxnSet<'_>) -> Value {
    let mut out = serde_json::Map::new();
    let wanted = strs(case, "want").unwrap_or_default();
    for w in wanted {
        let v = match w.as_str() {
            "txns" => guarded(|| {
                Ok(Value::Array(vh::txn_set_txns(set).iter().map(|t| txn_json(t)).collect()))
            }),
            "meta" => guarded(|| {
                Ok(match set.metadata() {
                    Some(md) => Value::String(md.text(jiff::tz::TimeZone::UTC)),
                    None => Value::Null,
                })
            }),
            "identity" => text_of(|w| IdentityExporter {}.write_export(settings, w, set)),
            "equity" => text_of(|w| {
                let e = EquityExporter { export_settings: EquitySettings::from(settings)? };
                e.write_export(settings, w, set)
            }),
            "balance" => text_of(|w| {
                let r = BalanceReporter::try_from(&*settings)?;
                r.write_txt_report(settings, w, set)
            }),
            "balgrp" => text_of(|w| {
                let r = BalanceGroupReporter { report_settings: BalanceGroupSettings::try_from(&*settings)? };
                r.write_txt_report(settings, w, set)
            }),
            "register" => text_of(|w| {
                let r = RegisterReporter { report_settings: RegisterSettings::try_from(&*settings)? };
                r.write_txt_report(settings, w, set)
            }),
            "probe" => guarded(|| Ok(crate::ops::strict::probe(case, settings))),
            _ => json!({"r": "BADCASE", "msg": format!("unknown output {w}")}),
        };
        out.insert(w, v);
    }
    Value::Object(out)
}


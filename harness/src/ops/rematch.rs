//! ops of the regular-expression component (C11; also for C05/C18), over the real `regex` crate and
//! the full-haystack helpers of `tackler_rs::regex`:
//!
//! * `rematch`: `pats` + `hays` => per pattern: `Regex::new(p).is_match(h)` ("plain"),
//!   `new_full_haystack_regex(p).is_match(h)` ("full"), the wrapped text (`as_str`), `peeled_pattern`;
//!   and `new_full_haystack_regex_set(pats).is_match(h)` ("set"), `peeled_patterns`. `"BADRE"` = rejected.
//! * `peel`: string `s` (compiled as it is, because the peel function is only reachable through a compiled
//!   regex) => `peeled_pattern(&Regex::new(s))`, `peeled_patterns(&RegexSet::new([s]))`, and the wrapped text.
use crate::util::*;
use serde_json::{Value, json};
use tackler_rs::regex::{
    new_full_haystack_regex, new_full_haystack_regex_set, peeled_pattern, peeled_patterns,
};

fn bools(re: &regex::Regex, hays: &[String]) -> Value {
    Value::Array(hays.iter().map(|h| Value::Bool(re.is_match(h))).collect())
}

pub fn op_rematch(case: &Value) -> Value {
    let pats = strs(case, "pats").unwrap_or_default();
    let hays = strs(case, "hays").unwrap_or_default();
    let per: Vec<Value> = pats
        .iter()
        .map(|p| {
            let plain = match regex::Regex::new(p) {
                Ok(re) => bools(&re, &hays),
                Err(_) => json!("BADRE"),
            };
            match new_full_haystack_regex(p) {
                Ok(re) => json!({"plain": plain, "full": bools(&re, &hays),
                                 "wrapped": re.as_str(), "peeled": peeled_pattern(&re)}),
                Err(_) => json!({"plain": plain, "full": "BADRE", "wrapped": null, "peeled": null}),
            }
        })
        .collect();
    let (set, set_peeled) = match new_full_haystack_regex_set(&pats) {
        Ok(rs) => (
            Value::Array(hays.iter().map(|h| Value::Bool(rs.is_match(h))).collect()),
            json!(peeled_patterns(&rs)),
        ),
        Err(_) => (json!("BADRE"), Value::Null),
    };
    json!({"r": "OK", "per": per, "set": set, "set_peeled": set_peeled})
}

pub fn op_peel(case: &Value) -> Value {
    let s = s(case, "s").unwrap_or_default();
    let wrapped = match new_full_haystack_regex(&s) {
        Ok(re) => json!(re.as_str()),
        Err(_) => Value::Null,
    };
    match regex::Regex::new(&s) {
        Ok(re) => {
            let set_peeled = match regex::RegexSet::new([&s]) {
                Ok(rs) => json!(peeled_patterns(&rs)),
                Err(_) => Value::Null,
            };
            json!({"r": "OK", "peeled": peeled_pattern(&re), "set_peeled": set_peeled, "wrapped": wrapped})
        }
        Err(_) => json!({"r": "BADRE", "wrapped": wrapped}),
    }
}

//! C14 ops over the real library:
//! * `bufw`  – `std::io::BufWriter::with_capacity(cap, sink)` over a sink that behaves like a file under
//!             `RLIMIT_FSIZE` (short write up to the limit, then an error), fed with chunks of the given lengths,
//!             then `flush()?` (patched protocol) or just dropped (protocol before fixes/F4-flush.diff).
//!             Contract test of the `BufWriter` semantics transliterated in lean/TacklerModel/Model/Output.lean.
//! * `wfail` – every reporter/exporter driven with a `Write` that fails after n bytes, for every n (or a stride):
//!             the error must propagate, the accepted bytes must be a prefix of the fault-free output; also reports
//!             the sizes of the `write_all` pieces the reporter issues (the real chunking).
use crate::util::*;
use serde_json::{Value, json};
use std::io::{self, BufWriter, Write};
use std::path::Path;
use tackler_core::export::{EquityExporter, EquitySettings, Export, IdentityExporter};
use tackler_core::kernel::Settings;
use tackler_core::kernel::{BalanceGroupSettings, RegisterSettings};
use tackler_core::model::TxnSet;
use tackler_core::parser;
use tackler_core::report::{BalanceGroupReporter, BalanceReporter, RegisterReporter, Report};

/// a file under a size limit: accepts bytes up to `limit`, short write at the boundary, then fails
pub struct LimitedSink {
    pub data: Vec<u8>,
    pub limit: Option<usize>,
    /// sizes of the `write` calls that were made (accepted or not)
    pub calls: Vec<usize>,
}

impl Write for LimitedSink {
    fn write(&mut self, buf: &[u8]) -> io::Result<usize> {
        self.calls.push(buf.len());
        if buf.is_empty() {
            return Ok(0);
        }
        match self.limit {
            None => {
                self.data.extend_from_slice(buf);
                Ok(buf.len())
            }
            Some(k) => {
                if self.data.len() >= k {
                    return Err(io::Error::other("File too large (simulated EFBIG)"));
                }
                let n = buf.len().min(k - self.data.len());
                self.data.extend_from_slice(&buf[..n]);
                Ok(n)
            }
        }
    }
    fn flush(&mut self) -> io::Result<()> {
        Ok(())
    }
}

fn pat(off: usize, n: usize) -> Vec<u8> {
    (0..n).map(|i| ((off + i) % 251) as u8).collect()
}

pub fn op_bufw(case: &Value) -> Value {
    let cap = case.get("cap").and_then(|x| x.as_u64()).unwrap_or(8192) as usize;
    let limit = case.get("limit").and_then(|x| x.as_u64()).map(|x| x as usize);
    let flush_checked = b(case, "flush_checked", true);
    let lens: Vec<usize> = case
        .get("chunks")
        .and_then(|x| x.as_array())
        .map(|a| a.iter().map(|e| e.as_u64().unwrap_or(0) as usize).collect())
        .unwrap_or_default();
    let mut content: Vec<u8> = Vec::new();
    let mut chunks: Vec<Vec<u8>> = Vec::new();
    for n in &lens {
        let c = pat(content.len(), *n);
        content.extend_from_slice(&c);
        chunks.push(c);
    }
    let mut sink = LimitedSink { data: Vec::new(), limit, calls: Vec::new() };
    let ok = {
        // same shape as one arm of write_txt_reports: Box<dyn Write> over a BufWriter, `?` after every write
        let mut w: Box<dyn Write + '_> = Box::new(BufWriter::with_capacity(cap, &mut sink));
        let mut r: io::Result<()> = Ok(());
        for c in &chunks {
            r = w.write_all(c);
            if r.is_err() {
                break;
            }
        }
        if r.is_ok() && flush_checked {
            r = w.flush();
        }
        r.is_ok()
        // w dropped here: BufWriter::drop flushes and ignores the result
    };
    let prefix = sink.data.len() <= content.len() && sink.data[..] == content[..sink.data.len()];
    json!({"r": "OK", "ok": ok, "len": sink.data.len(), "prefix": prefix})
}

/// records the `write_all` pieces a reporter issues
struct Recorder {
    data: Vec<u8>,
    pieces: Vec<usize>,
}
impl Write for Recorder {
    fn write(&mut self, buf: &[u8]) -> io::Result<usize> {
        self.data.extend_from_slice(buf);
        self.pieces.push(buf.len());
        Ok(buf.len())
    }
    fn flush(&mut self) -> io::Result<()> {
        Ok(())
    }
}

fn write_target(
    target: &str,
    settings: &mut Settings,
    set: &TxnSet<'_>,
    w: &mut dyn Write,
) -> Result<(), tackler_core::tackler::Error> {
    match target {
        "identity" => IdentityExporter {}.write_export(settings, w, set),
        "equity" => {
            let e = EquityExporter { export_settings: EquitySettings::from(settings)? };
            e.write_export(settings, w, set)
        }
        "balance" => {
            let r = BalanceReporter::try_from(&*settings)?;
            r.write_txt_report(settings, w, set)
        }
        "balgrp" => {
            let r = BalanceGroupReporter { report_settings: BalanceGroupSettings::try_from(&*settings)? };
            r.write_txt_report(settings, w, set)
        }
        "register" => {
            let r = RegisterReporter { report_settings: RegisterSettings::try_from(&*settings)? };
            r.write_txt_report(settings, w, set)
        }
        _ => Err(format!("unknown target {target}").into()),
    }
}

pub fn op_wfail(case: &Value, dir: &Path) -> Value {
    let cfg = case.get("cfg").cloned().unwrap_or(json!({}));
    let mut settings = match make_settings(&cfg, dir) {
        Ok(s) => s,
        Err(e) => return json!({"r": "CFGERR", "msg": e}),
    };
    let text = s(case, "text").unwrap_or_default();
    let mut input: &str = text.as_str();
    let data = match parser::string_to_txns(&mut input, &mut settings) {
        Ok(d) => d,
        Err(e) => return json!({"r": "ERR", "msg": e.to_string()}),
    };
    let set = match data.get_all() {
        Ok(s) => s,
        Err(e) => return json!({"r": "SETERR", "msg": e.to_string()}),
    };
    let target = s(case, "target").unwrap_or("balance".into());
    let stride = case.get("stride").and_then(|x| x.as_u64()).unwrap_or(1).max(1) as usize;
    // fault-free run: content and the pieces
    let mut rec = Recorder { data: Vec::new(), pieces: Vec::new() };
    if let Err(e) = write_target(&target, &mut settings, &set, &mut rec) {
        return json!({"r": "RPTERR", "msg": e.to_string()});
    }
    let total = rec.data.len();
    let mut bad: Vec<Value> = Vec::new();
    let mut tried = 0usize;
    let mut ns: Vec<usize> = (0..=total + 1).step_by(stride).collect();
    for extra in [total.saturating_sub(1), total, total + 1, 8191, 8192, 8193] {
        if extra <= total + 1 && !ns.contains(&extra) {
            ns.push(extra);
        }
    }
    for n in ns {
        tried += 1;
        // (a) the reporter straight on the failing writer
        let mut sink = LimitedSink { data: Vec::new(), limit: Some(n), calls: Vec::new() };
        let r = write_target(&target, &mut settings, &set, &mut sink);
        let want_ok = n >= total;
        let m = n.min(total);
        if r.is_ok() != want_ok || sink.data[..] != rec.data[..m] {
            bad.push(json!({"n": n, "mode": "raw", "ok": r.is_ok(), "len": sink.data.len()}));
        }
        // (b) through the 8 KiB BufWriter + flush()?, the protocol of the patched arms
        let mut sink = LimitedSink { data: Vec::new(), limit: Some(n), calls: Vec::new() };
        let ok = {
            let mut w: Box<dyn Write + '_> = Box::new(BufWriter::new(&mut sink));
            let mut r = write_target(&target, &mut settings, &set, &mut w);
            if r.is_ok() {
                r = w.flush().map_err(|e| e.into());
            }
            r.is_ok()
        };
        if ok != want_ok || sink.data[..] != rec.data[..m] {
            bad.push(json!({"n": n, "mode": "buffered", "ok": ok, "len": sink.data.len()}));
        }
    }
    json!({"r": "OK", "total": total, "pieces": rec.pieces, "tried": tried, "bad": bad})
}

//! op `run`: cfg + journal text (or files) [+ filter] => load status and the wanted outputs
use crate::util::*;
use serde_json::{Value, json};
use std::panic::{AssertUnwindSafe, catch_unwind};
use std::path::Path;
use tackler_api::filters::FilterDefinition;
use tackler_core::kernel::Settings;
use tackler_core::model::TxnData;
use tackler_core::parser;

pub(crate) fn load(case: &Value, settings: &mut Settings, dir: &Path) -> Result<TxnData, String> {
    if let Some(files) = case.get("files").and_then(|x| x.as_array()) {
        // multi-file input through paths_to_txns
        let d = dir.join("txns");
        let _ = std::fs::remove_dir_all(&d);
        std::fs::create_dir_all(&d).map_err(|e| e.to_string())?;
        // entries named `../<x>/…` live beside the journal directory (targets of symbolic links): start from scratch there too
        for f in files {
            let name = f.get("name").and_then(|x| x.as_str()).unwrap_or("");
            if let Some(rest) = name.strip_prefix("../") {
                if let Some(top) = rest.split('/').next() {
                    if !top.is_empty() && top != ".." {
                        let _ = std::fs::remove_dir_all(dir.join(top));
                    }
                }
            }
        }
        let mut paths = Vec::new();
        for f in files {
            let name = f.get("name").and_then(|x| x.as_str()).unwrap_or("x.txn");
            let p = d.join(name);
            if let Some(parent) = p.parent() {
                std::fs::create_dir_all(parent).map_err(|e| e.to_string())?;
            }
            if let Some(target) = f.get("symlink").and_then(|x| x.as_str()) {
                // a directory entry that is a symbolic link (to `target`, relative to the journal directory;
                // the target may not exist: a dangling link)
                #[cfg(unix)]
                std::os::unix::fs::symlink(d.join(target), &p).map_err(|e| e.to_string())?;
            } else {
                std::fs::write(&p, f.get("text").and_then(|x| x.as_str()).unwrap_or(""))
                    .map_err(|e| e.to_string())?;
            }
            paths.push(p);
        }
        if b(case, "walk", false) {
            let ps = tackler_rs::get_paths_by_ext(&d, "txn").map_err(|e| e.to_string())?;
            parser::paths_to_txns(&ps, settings).map_err(|e| e.to_string())
        } else {
            parser::paths_to_txns(&paths, settings).map_err(|e| e.to_string())
        }
    } else {
        let text = s(case, "text").unwrap_or_default();
        let mut input: &str = text.as_str();
        parser::string_to_txns(&mut input, settings).map_err(|e| e.to_string())
    }
}

/// op `run`: cfg + journal text (or files) [+ filter] ⇒ load status, and the wanted outputs
pub fn op_run(case: &Value, dir: &Path) -> Value {
    let cfg = case.get("cfg").cloned().unwrap_or(json!({}));
    let mut settings = match make_settings(&cfg, dir) {
        Ok(s) => s,
        Err(e) => return json!({"r": "CFGERR", "msg": e}),
    };
    let loaded = catch_unwind(AssertUnwindSafe(|| load(case, &mut settings, dir)));
    let data = match loaded {
        Ok(Ok(d)) => d,
        Ok(Err(e)) => return json!({"r": "ERR", "msg": e}),
        Err(_) => return json!({"r": "PANIC"}),
    };
    let filt = match case.get("filter") {
        Some(f) if !f.is_null() => {
            let fs = if f.is_string() { f.as_str().unwrap_or("").to_string() } else { f.to_string() };
            let fd = if FilterDefinition::is_armored(&fs) {
                FilterDefinition::from_armor(&fs)
            } else {
                FilterDefinition::from_json_str(&fs)
            };
            match fd {
                Ok(fd) => Some(fd),
                Err(e) => return json!({"r": "FILTERERR", "msg": e.to_string()}),
            }
        }
        _ => None,
    };
    // `pre`: selections made on the same loaded data before the one that is reported (null = everything, else a
    // filter definition); their results are dropped — a selection must not depend on the selections made before it
    if let Some(pre) = case.get("pre").and_then(|p| p.as_array()) {
        for f in pre {
            let _ = catch_unwind(AssertUnwindSafe(|| {
                if f.is_null() {
                    let _ = data.get_all();
                } else {
                    let fs = if f.is_string() { f.as_str().unwrap_or("").to_string() } else { f.to_string() };
                    if let Ok(fd) = FilterDefinition::from_json_str(&fs) {
                        let _ = data.filter(&fd);
                    }
                }
            }));
        }
    }
    let set = catch_unwind(AssertUnwindSafe(|| match &filt {
        Some(fd) => data.filter(fd),
        None => data.get_all(),
    }));
    let set = match set {
        Ok(Ok(s)) => s,
        Ok(Err(e)) => return json!({"r": "SETERR", "msg": e.to_string()}),
        Err(_) => return json!({"r": "PANIC", "at": "set"}),
    };
    let out = outputs(case, &mut settings, &set);
    json!({"r": "OK", "n": data.len(), "out": out})
}


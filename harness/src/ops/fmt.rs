//! op `fmt` (C17): decimal text + scale ⇒ the figure as the reporters print it.
//! * `direct`: contract test of the two library calls every reporter position starts with, on the real
//!   `Scale` of the settings built from the case's configuration: `get_precision` and
//!   `round_dp_with_strategy(prec, MidpointAwayFromZero)` (the rounded decimal in its stored form; the
//!   padding to `prec` decimals is observed through the reporters only).
//! * `run`: when the case carries a journal (`text`), the answer of op `run` on it (real reporters); the
//!   python side reads the figure off the report positions.
use crate::util::*;
use rust_decimal::{Decimal, RoundingStrategy};
use serde_json::{Value, json};
use std::path::Path;
use tackler_core::kernel::BalanceGroupSettings;

pub fn op_fmt(case: &Value, dir: &Path) -> Value {
    let cfg = case.get("cfg").cloned().unwrap_or(json!({}));
    let settings = match make_settings(&cfg, dir) {
        Ok(s) => s,
        Err(e) => return json!({"r": "CFGERR", "msg": e}),
    };
    let dtxt = s(case, "d").unwrap_or_default();
    let d = match Decimal::from_str_exact(&dtxt) {
        Ok(d) => d,
        Err(e) => return json!({"r": "BADCASE", "msg": format!("bad decimal {dtxt}: {e}")}),
    };
    let direct = guarded(|| {
        let rs = BalanceGroupSettings::try_from(&settings).map_err(|e| e.to_string())?;
        let one = |x: &Decimal| -> (usize, String) {
            let prec = rs.scale.get_precision(x);
            (
                prec,
                x.round_dp_with_strategy(prec as u32, RoundingStrategy::MidpointAwayFromZero)
                    .to_string(),
            )
        };
        let (prec, rounded) = one(&d);
        let (_, neg_rounded) = one(&-d);
        Ok(json!({"prec": prec, "rounded": rounded, "neg_rounded": neg_rounded}))
    });
    let run = if case.get("text").is_some() {
        super::run::op_run(case, dir)
    } else {
        Value::Null
    };
    json!({"r": "OK", "direct": direct, "run": run})
}

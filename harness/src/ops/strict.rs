//! op `strict` (C12): one journal, several configurations (`runs`: strict / lax / lax with empty charts …).
//! Every run is op `run` on the shared case with that run's `cfg`; answer: `{"r":"MULTI","runs":[…]}`.
use crate::ops::run;
use serde_json::{Value, json};
use std::panic::{AssertUnwindSafe, catch_unwind};
use std::path::Path;

pub fn op_strict(case: &Value, dir: &Path) -> Value {
    let runs = match case.get("runs").and_then(|x| x.as_array()) {
        Some(r) => r,
        None => return json!({"r": "BADCASE", "msg": "no runs"}),
    };
    let mut base = case.clone();
    if let Some(o) = base.as_object_mut() {
        o.remove("runs");
    }
    let mut out = Vec::with_capacity(runs.len());
    for r in runs {
        let mut sub = base.clone();
        if let Some(o) = sub.as_object_mut() {
            o.insert("op".into(), json!("run"));
            o.insert("cfg".into(), r.get("cfg").cloned().unwrap_or(json!({})));
        }
        let ans = match catch_unwind(AssertUnwindSafe(|| run::op_run(&sub, dir))) {
            Ok(v) => v,
            Err(_) => json!({"r": "PANIC", "at": "run"}),
        };
        out.push(ans);
    }
    json!({"r": "MULTI", "runs": out})
}

/// output kind `probe` of op `run`: which of the probe commodities `get_commodity` knows after the load and,
/// per probe account, in which of them `get_txn_account` (the report-side lookup) finds the account.
/// Answer: `{"comms": "0110…", "accts": ["0100…", …]}`.
pub fn probe(case: &Value, settings: &tackler_core::kernel::Settings) -> Value {
    use crate::util::strs;
    use tackler_core::verif_hooks as vh;
    let p = case.get("probe").cloned().unwrap_or(json!({}));
    let accts = strs(&p, "accounts").unwrap_or_default();
    let comms = strs(&p, "commodities").unwrap_or_default();
    let bit = |b: bool| if b { '1' } else { '0' };
    let known: String = comms.iter().map(|c| bit(settings.get_commodity(c).is_ok())).collect();
    let rows: Vec<Value> = accts
        .iter()
        .map(|a| Value::String(comms.iter().map(|c| bit(vh::settings_knows_txn_account(settings, a, c))).collect()))
        .collect();
    json!({"comms": known, "accts": rows})
}

//! op `strict` (C12): one journal, several configurations (`runs`: strict / lax / lax with empty charts …).
//! Every run is op `run` on the shared case with that run's `cfg`; answer: `{"r":"MULTI","runs":[…]}`.
use crate::ops::run;
use serde_json::{Value, json};
use std::panic::{AssertUnwindSafe, catch_unwind};
use std::path::Path;

pub fn op_strict(case: &Value, dir: &Path) -> Value {
    let runs = match case.get("runs").and_then(|x| x.as_array()) {
        Some(r) => r,
        None => return json!({"r": "BADCASE", "msg": "no runs"}),
    };
    let mut base = case.clone();
    if let Some(o) = base.as_object_mut() {
        o.remove("runs");
    }
    let mut out = Vec::with_capacity(runs.len());
    for r in runs {
        let mut sub = base.clone();
        if let Some(o) = sub.as_object_mut() {
            o.insert("op".into(), json!("run"));
            o.insert("cfg".into(), r.get("cfg").cloned().unwrap_or(json!({})));
        }
        let ans = match catch_unwind(AssertUnwindSafe(|| run::op_run(&sub, dir))) {
            Ok(v) => v,
            Err(_) => json!({"r": "PANIC", "at": "run"}),
        };
        out.push(ans);
    }
    json!({"r": "MULTI", "runs": out})
}

//! op `audit` (C09): cfg (audit flag, hash algorithm, selector lists) + journal text [+ filter]
//! => load status, set status, the selected UUIDs, the `TxnSetChecksum` metadata item(s) both as data
//! and as the metadata text, and the head of every report/export (where the "Account Selector
//! Checksum" block is printed) — kept even if the body of the report fails afterwards.
use crate::util::*;
use serde_json::{Value, json};
use std::panic::{AssertUnwindSafe, catch_unwind};
use std::path::Path;
use tackler_api::filters::FilterDefinition;
use tackler_api::metadata::items::MetadataItem;
use tackler_core::export::{EquityExporter, EquitySettings, Export};
use tackler_core::kernel::{BalanceGroupSettings, RegisterSettings};
use tackler_core::report::{BalanceGroupReporter, BalanceReporter, RegisterReporter, Report};
use tackler_core::verif_hooks as vh;

fn partial_text<F: FnOnce(&mut Vec<u8>) -> Result<(), tackler_core::tackler::Error>>(f: F) -> Value {
    let mut w: Vec<u8> = Vec::new();
    let r = catch_unwind(AssertUnwindSafe(|| f(&mut w)));
    let status = match r {
        Ok(Ok(())) => "OK",
        Ok(Err(_)) => "ERR",
        Err(_) => "PANIC",
    };
    json!({"r": status, "text": String::from_utf8_lossy(&w).to_string()})
}

pub fn op_audit(case: &Value, dir: &Path) -> Value {
    let cfg = case.get("cfg").cloned().unwrap_or(json!({}));
    let settings = match make_settings(&cfg, dir) {
        Ok(s) => s,
        Err(e) => return json!({"r": "CFGERR", "msg": e}),
    };
    let mut settings = settings;
    // one text through `string_to_txns`, or several files (key `files`) through `paths_to_txns` (as op `run`)
    let loaded = catch_unwind(AssertUnwindSafe(|| super::run::load(case, &mut settings, dir)));
    let data = match loaded {
        Ok(Ok(d)) => d,
        Ok(Err(e)) => return json!({"r": "ERR", "msg": e}),
        Err(_) => return json!({"r": "PANIC"}),
    };
    let filt = match case.get("filter") {
        Some(f) if !f.is_null() => match FilterDefinition::from_json_str(&f.to_string()) {
            Ok(fd) => Some(fd),
            Err(e) => return json!({"r": "FILTERERR", "msg": e.to_string()}),
        },
        _ => None,
    };
    let set = catch_unwind(AssertUnwindSafe(|| match &filt {
        Some(fd) => data.filter(fd),
        None => data.get_all(),
    }));
    let set = match set {
        Ok(Ok(s)) => s,
        Ok(Err(e)) => return json!({"r": "OK", "n": data.len(), "set": {"r": "ERR", "msg": e.to_string()}}),
        Err(_) => return json!({"r": "OK", "n": data.len(), "set": {"r": "PANIC"}}),
    };
    let uuids: Vec<Value> = vh::txn_set_txns(&set)
        .iter()
        .map(|t| match vh::txn_header(t).uuid {
            Some(u) => Value::String(u.to_string()),
            None => Value::Null,
        })
        .collect();
    let (tsc, meta_text) = match set.metadata() {
        Some(md) => {
            let items: Vec<Value> = md
                .items
                .iter()
                .filter_map(|i| match i {
                    MetadataItem::TxnSetChecksum(t) => {
                        Some(json!({"size": t.size, "alg": t.hash.algorithm, "value": t.hash.value}))
                    }
                    _ => None,
                })
                .collect();
            (Value::Array(items), Value::String(md.text(jiff::tz::TimeZone::UTC)))
        }
        None => (Value::Array(vec![]), Value::Null),
    };
    let mut reports = serde_json::Map::new();
    for w in strs(case, "reports").unwrap_or_default() {
        let v = match w.as_str() {
            "balance" => partial_text(|w| {
                let r = BalanceReporter::try_from(&settings)?;
                r.write_txt_report(&settings, w, &set)
            }),
            "balgrp" => partial_text(|w| {
                let r = BalanceGroupReporter { report_settings: BalanceGroupSettings::try_from(&settings)? };
                r.write_txt_report(&settings, w, &set)
            }),
            "register" => partial_text(|w| {
                let r = RegisterReporter { report_settings: RegisterSettings::try_from(&settings)? };
                r.write_txt_report(&settings, w, &set)
            }),
            "equity" => partial_text(|w| {
                let e = EquityExporter { export_settings: EquitySettings::from(&settings)? };
                e.write_export(&settings, w, &set)
            }),
            _ => json!({"r": "BADCASE", "msg": format!("unknown report {w}")}),
        };
        reports.insert(w, v);
    }
    json!({"r": "OK", "n": data.len(),
           "set": {"r": "OK", "uuids": uuids, "tsc": tsc, "meta": meta_text},
           "reports": Value::Object(reports)})
}

fn unhex(s: &str) -> Vec<u8> {
    let b = s.as_bytes();
    let nib = |c: u8| -> u8 { if c >= b'a' { c - b'a' + 10 } else { c - b'0' } };
    b.chunks(2).filter(|c| c.len() == 2).map(|c| nib(c[0]) * 16 + nib(c[1])).collect()
}

/// op `hash` (C09): algorithm name + messages `{items, sep(hex)}` => `Hash::checksum` values, and
/// pattern sets => checksum of the by-account selectors (balance, register, equity) built from them
pub fn op_hash(case: &Value, _dir: &Path) -> Value {
    use tackler_core::kernel::hash::Hash;
    use tackler_core::kernel::report_item_selector::{
        BalanceByAccountSelector, BalanceNonZeroByAccountSelector, RegisterByAccountSelector, ReportItemSelector,
    };
    let alg = s(case, "hash").unwrap_or_default();
    let hash = match Hash::from(&alg) {
        Ok(h) => h,
        Err(e) => return json!({"r": "CFGERR", "msg": e.to_string()}),
    };
    let mut vals = Vec::new();
    if let Some(msgs) = case.get("msgs").and_then(|x| x.as_array()) {
        for m in msgs {
            let items = strs(m, "items").unwrap_or_default();
            let sep = unhex(&s(m, "sep").unwrap_or_default());
            match hash.checksum(&items, &sep) {
                Ok(c) => vals.push(json!({"alg": c.algorithm, "value": c.value})),
                Err(e) => vals.push(json!({"err": e.to_string()})),
            }
        }
    }
    let mut sels = Vec::new();
    if let Some(sets) = case.get("patsets").and_then(|x| x.as_array()) {
        for ps in sets {
            let pats: Vec<String> =
                ps.as_array().map(|a| a.iter().map(|e| e.as_str().unwrap_or("").to_string()).collect()).unwrap_or_default();
            let p: Vec<&str> = pats.iter().map(|x| x.as_str()).collect();
            let cs = |r: Result<tackler_api::metadata::Checksum, tackler_core::tackler::Error>| match r {
                Ok(c) => json!({"alg": c.algorithm, "value": c.value}),
                Err(e) => json!({"err": e.to_string()}),
            };
            let b = cs(BalanceByAccountSelector::from(&p).and_then(|x| x.checksum(hash.clone())));
            let r = cs(RegisterByAccountSelector::from(&p).and_then(|x| x.checksum(hash.clone())));
            let e = cs(BalanceNonZeroByAccountSelector::from(&p).and_then(|x| x.checksum(hash.clone())));
            sels.push(json!({"balance": b, "register": r, "equity": e}));
        }
    }
    json!({"r": "OK", "v": vals, "sels": sels})
}

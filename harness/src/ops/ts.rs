//! ops of C16 (timestamps):
//! * `ts`     : journal tz configuration + default time + a list of timestamp texts => per text instant (ns) and
//!              offset (s) | ERR, through the public `Settings::parse_timestamp` on settings built from a generated
//!              configuration
//! * `tsfmt`  : instant + own zone + a list of report zones => every text the public functions of
//!              `tackler_api::txn_ts` produce
//! * `tzdata` : zone name + window => offset at the window start and the transitions inside the window
//!              (the zone *data* the Lean model reads as a table)
use crate::util::*;
use serde_json::{Value, json};
use std::cell::RefCell;
use std::collections::HashMap;
use std::path::Path;
use tackler_api::txn_ts;
use tackler_core::kernel::Settings;

thread_local! {
    static SETTINGS: RefCell<HashMap<String, Result<Settings, String>>> = RefCell::new(HashMap::new());
}

fn ns_of(v: &Value, k: &str) -> Result<i128, String> {
    match v.get(k) {
        Some(Value::String(s)) => s.parse::<i128>().map_err(|e| e.to_string()),
        Some(x) => x.to_string().parse::<i128>().map_err(|e| e.to_string()),
        None => Err(format!("missing field {k}")),
    }
}

/// op `ts`: one configuration, a list of timestamp texts
pub fn op_ts(case: &Value, dir: &Path) -> Value {
    let cfg = case.get("cfg").cloned().unwrap_or(json!({}));
    let key = cfg.to_string();
    let texts = strs(case, "texts").unwrap_or_default();
    SETTINGS.with(|cell| {
        let mut map = cell.borrow_mut();
        if map.len() > 256 {
            map.clear();
        }
        let entry = map.entry(key).or_insert_with(|| make_settings(&cfg, dir));
        match entry {
            Err(e) => json!({"r": "CFGERR", "msg": e.clone()}),
            Ok(settings) => {
                let out: Vec<Value> = texts
                    .iter()
                    .map(|text| {
                        let r = guarded(|| {
                            let z = settings.parse_timestamp(text).map_err(|e| e.to_string())?;
                            let ns: i128 = z.timestamp().as_nanosecond();
                            Ok(json!({"ns": ns.to_string(), "off": z.offset().seconds()}))
                        });
                        match r.get("r").and_then(|x| x.as_str()) {
                            Some("OK") => json!({"r": "OK", "ns": r["v"]["ns"], "off": r["v"]["off"]}),
                            Some(x) => json!({"r": x}),
                            None => json!({"r": "GARBLED"}),
                        }
                    })
                    .collect();
                json!({"r": "OK", "v": out})
            }
        }
    })
}

fn zone_of(v: &Value) -> Result<jiff::tz::TimeZone, String> {
    if let Some(n) = v.get("name").and_then(|x| x.as_str()) {
        return jiff::tz::TimeZone::get(n).map_err(|e| e.to_string());
    }
    if let Some(o) = v.get("off").and_then(|x| x.as_i64()) {
        let off = jiff::tz::Offset::from_seconds(o as i32).map_err(|e| e.to_string())?;
        return Ok(off.to_time_zone());
    }
    Err("zone: neither name nor off".to_string())
}

fn fmt_one(ts: jiff::Timestamp, z: &jiff::Zoned, rtz: &Value) -> Result<Value, String> {
    let rtz = zone_of(rtz)?;
    Ok(json!({
        "rtz_off": rtz.to_offset(ts).seconds(),
        "seconds": txn_ts::as_tz_seconds(z, rtz.clone()),
        "full": txn_ts::as_tz_full(z, rtz.clone()),
        "date": txn_ts::as_tz_date(z, rtz.clone()),
        "month": txn_ts::as_tz_month(z, rtz.clone()),
        "year": txn_ts::as_tz_year(z, rtz.clone()),
        "week": txn_ts::as_tz_iso_week(z, rtz.clone()),
        "week_date": txn_ts::as_tz_iso_week_date(z, rtz.clone()),
    }))
}

/// op `tsfmt`: one instant with its own zone, a list of report zones
pub fn op_tsfmt(case: &Value, _dir: &Path) -> Value {
    guarded(|| {
        let ns = ns_of(case, "ns")?;
        let own = zone_of(case.get("own").unwrap_or(&json!({"off": 0})))?;
        let ts = jiff::Timestamp::from_nanosecond(ns).map_err(|e| e.to_string())?;
        let z = ts.to_zoned(own);
        let rtzs: Vec<Value> = case.get("rtzs").and_then(|x| x.as_array()).cloned().unwrap_or_default();
        let at: Vec<Value> = rtzs
            .iter()
            .map(|r| match guarded(|| fmt_one(ts, &z, r)) {
                Value::Object(m) if m.get("r").and_then(|x| x.as_str()) == Some("OK") => {
                    let mut v = m.get("v").cloned().unwrap_or(json!({}));
                    v["r"] = json!("OK");
                    v
                }
                other => json!({"r": other.get("r").cloned().unwrap_or(json!("ERR"))}),
            })
            .collect();
        Ok(json!({
            "own_off": z.offset().seconds(),
            "rfc3339": txn_ts::rfc_3339(&z),
            "seconds_tz": txn_ts::seconds_tz(&z),
            "full_tz": txn_ts::full_tz(&z),
            "utc_seconds": txn_ts::as_utc_seconds(&z),
            "utc_full": txn_ts::as_utc_full(&z),
            "utc_date": txn_ts::as_utc_date(&z),
            "utc_month": txn_ts::as_utc_month(&z),
            "utc_year": txn_ts::as_utc_year(&z),
            "utc_week": txn_ts::as_utc_iso_week(&z),
            "utc_week_date": txn_ts::as_utc_iso_week_date(&z),
            "at": at,
        }))
    })
}

/// op `tzdata`: the zone as data.  `TimeZone::following` of jiff 0.2.5 skips the last explicit transition of zones
/// whose footer rule has no DST (e.g. Asia/Kolkata 1945-10-14), so the table is built from `TimeZone::to_offset`
/// itself: sample every 6 hours, bisect every change to the second; the transitions reported by `following` are
/// added as further candidates (they catch two changes inside one step).
pub fn op_tzdata(case: &Value, _dir: &Path) -> Value {
    guarded(|| {
        let name = s(case, "zone").ok_or("no zone")?;
        let tz = jiff::tz::TimeZone::get(&name).map_err(|e| e.to_string())?;
        let lo_ns = ns_of(case, "lo")?;
        let hi_ns = ns_of(case, "hi")?;
        let lo = lo_ns.div_euclid(1_000_000_000) as i64;
        let hi = hi_ns.div_euclid(1_000_000_000) as i64;
        let off = |sec: i64| -> Result<i32, String> {
            let t = jiff::Timestamp::new(sec, 0).map_err(|e| e.to_string())?;
            Ok(tz.to_offset(t).seconds())
        };
        let mut cand: Vec<i64> = Vec::new();
        let step: i64 = 6 * 3600;
        let mut a = lo;
        let mut oa = off(a)?;
        while a < hi {
            let b = std::cmp::min(a + step, hi);
            let ob = off(b)?;
            if ob != oa {
                // first second in (a, b] whose offset differs from the one at a
                let (mut x, mut y) = (a, b);
                while y - x > 1 {
                    let m = x + (y - x) / 2;
                    if off(m)? != oa { y = m } else { x = m }
                }
                cand.push(y);
            }
            a = b;
            oa = ob;
        }
        let lo_ts = jiff::Timestamp::new(lo, 0).map_err(|e| e.to_string())?;
        for t in tz.following(lo_ts) {
            let sec = t.timestamp().as_second();
            if sec > hi || cand.len() > 200000 {
                break;
            }
            cand.push(sec);
        }
        cand.sort();
        cand.dedup();
        let init = off(lo)?;
        let mut cur = init;
        let mut trans: Vec<Value> = Vec::new();
        for t in cand {
            if t <= lo || t > hi {
                continue;
            }
            let o = off(t)?;
            if o != cur {
                trans.push(json!([(t as i128 * 1_000_000_000).to_string(), o]));
                cur = o;
            }
        }
        Ok(json!({"zone": name, "lo": (lo as i128 * 1_000_000_000).to_string(),
                  "hi": (hi as i128 * 1_000_000_000).to_string(), "init": init, "trans": trans}))
    })
}

//! op `price` (C07): cfg (with `price` = {db, lookup, before} and `report_commodity`) + journal text
//! ⇒ the price db as loaded, per transaction the converted postings
//! (`PriceLookup::make_ctx` + `PriceLookupCtx::convert_prices` through the verif hook), the price
//! metadata records, and the balance / register report texts of the same settings.
use crate::util::*;
use serde_json::{Value, json};
use std::panic::{AssertUnwindSafe, catch_unwind};
use std::path::Path;
use tackler_core::kernel::RegisterSettings;
use tackler_core::parser;
use tackler_core::report::{BalanceReporter, RegisterReporter, Report};
use tackler_core::verif_hooks as vh;

fn ns_of(z: &jiff::Zoned) -> String {
    z.timestamp().as_nanosecond().to_string()
}

pub fn op_price(case: &Value, dir: &Path) -> Value {
    let cfg = case.get("cfg").cloned().unwrap_or(json!({}));
    let made = catch_unwind(AssertUnwindSafe(|| make_settings(&cfg, dir)));
    let mut settings = match made {
        Ok(Ok(s)) => s,
        Ok(Err(e)) => return json!({"r": "CFGERR", "msg": e}),
        Err(_) => return json!({"r": "PANIC", "at": "settings"}),
    };
    let text = s(case, "text").unwrap_or_default();
    let loaded = catch_unwind(AssertUnwindSafe(|| {
        let mut input: &str = text.as_str();
        parser::string_to_txns(&mut input, &mut settings).map_err(|e| e.to_string())
    }));
    let data = match loaded {
        Ok(Ok(d)) => d,
        Ok(Err(e)) => return json!({"r": "ERR", "msg": e}),
        Err(_) => return json!({"r": "PANIC", "at": "load"}),
    };
    let set = match data.get_all() {
        Ok(s) => s,
        Err(e) => return json!({"r": "SETERR", "msg": e.to_string()}),
    };
    let db: Vec<Value> = settings
        .price
        .price_db
        .iter()
        .map(|e| {
            json!({"ns": ns_of(&e.timestamp), "base": e.base_commodity.name,
                   "rate": dec_s(&e.eq_amount), "target": e.eq_commodity.name})
        })
        .collect();
    let conv = guarded(|| {
        let (txns, meta) = vh::price_conversion(&settings, &set);
        let ts: Vec<Value> = vh::txn_set_txns(&set)
            .iter()
            .zip(txns.iter())
            .map(|(t, posts)| {
                let h = vh::txn_header(t);
                json!({
                    "ns": ns_of(&h.timestamp),
                    "uuid": h.uuid.map(|u| u.to_string()),
                    "orig": vh::txn_postings(t).iter().map(|p| json!({
                        "acct": p.account, "comm": p.commodity, "amount": dec_s(&p.amount)})).collect::<Vec<_>>(),
                    "posts": posts.iter().map(|p| json!({
                        "acct": p.account, "comm": p.commodity, "amount": dec_s(&p.amount),
                        "rate": p.rate.as_ref().map(dec_s)})).collect::<Vec<_>>(),
                })
            })
            .collect();
        let ms: Vec<Value> = meta
            .rates
            .iter()
            .map(|r| {
                json!({"ns": r.ts.as_ref().map(ns_of), "source": r.source, "rate": r.rate, "target": r.target})
            })
            .collect();
        Ok(json!({"txns": ts, "meta": ms}))
    });
    let balance = text_of(|w| {
        let r = BalanceReporter::try_from(&settings)?;
        r.write_txt_report(&settings, w, &set)
    });
    let register = text_of(|w| {
        let r = RegisterReporter { report_settings: RegisterSettings::try_from(&settings)? };
        r.write_txt_report(&settings, w, &set)
    });
    json!({"r": "OK", "n": data.len(), "db": db, "conv": conv, "balance": balance, "register": register})
}

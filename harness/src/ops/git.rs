//! op `git` (C08): load one commit of a git repository through `parser::git_to_txns` and — when a
//! checkout of the same commit is given — the same directory/extension through
//! `tackler_rs::get_paths_by_ext` + `parser::paths_to_txns`.
//!
//! case fields
//!   repo      path of the repository (work tree root or `.git` directory or bare repository)
//!   dir, ext  directory inside the repository / file extension (suffix as written in the configuration
//!             when `via_settings` is true)
//!   sel       {"ref": "<refname>"} | {"commit": "<full or abbreviated id>"}
//!   checkout  optional: root directory of a checkout of the commit (fs side)
//!   via_settings  optional bool: route repo/dir/suffix/ref through a generated configuration and
//!             `Settings::get_input_settings` (the `.txn` / `txn` suffix normalisation) instead of
//!             handing them to the loaders directly
//!   cfg, want as in op `run`
//! answer: {"r":"OK", "git": <load answer>, "fs": <load answer + "paths": selected paths relative to checkout>}
use crate::util::*;
use serde_json::{Value, json};
use std::panic::{AssertUnwindSafe, catch_unwind};
use std::path::{Path, PathBuf};
use tackler_core::config::Config;
use tackler_core::config::overlaps::OverlapConfig;
use tackler_core::kernel::Settings;
use tackler_core::kernel::settings::InputSettings;
use tackler_core::model::TxnData;
use tackler_core::parser;
use tackler_core::parser::GitInputSelector;

const INPUT_LINE: &str = "input = { storage = \"fs\", fs = { dir = \"txns\", suffix = \"txn\" } }";

/// settings of the case; with `input` the `[kernel] input` line of the generated configuration is replaced
fn settings_with_input(cfg: &Value, dir: &Path, input: Option<&str>) -> Result<Settings, String> {
    let p = write_config(cfg, dir)?;
    if let Some(inp) = input {
        let text = std::fs::read_to_string(&p).map_err(|e| e.to_string())?;
        if !text.contains(INPUT_LINE) {
            return Err("harness: input line of the generated configuration not found".into());
        }
        std::fs::write(&p, text.replace(INPUT_LINE, inp)).map_err(|e| e.to_string())?;
    }
    let c = Config::from(&p).map_err(|e| format!("config: {e}"))?;
    Settings::try_from(c, OverlapConfig::default()).map_err(|e| format!("settings: {e}"))
}

fn finish(case: &Value, settings: &mut Settings, loaded: std::thread::Result<Result<TxnData, String>>) -> Value {
    let data = match loaded {
        Ok(Ok(d)) => d,
        Ok(Err(e)) => return json!({"r": "ERR", "msg": e}),
        Err(_) => return json!({"r": "PANIC"}),
    };
    let set = match catch_unwind(AssertUnwindSafe(|| data.get_all())) {
        Ok(Ok(s)) => s,
        Ok(Err(e)) => return json!({"r": "SETERR", "msg": e.to_string()}),
        Err(_) => return json!({"r": "PANIC", "at": "set"}),
    };
    let out = outputs(case, settings, &set);
    json!({"r": "OK", "n": data.len(), "out": out})
}

fn git_side(case: &Value, dir: &Path) -> Value {
    let cfg = case.get("cfg").cloned().unwrap_or(json!({}));
    let repo = s(case, "repo").unwrap_or_default();
    let gdir = s(case, "dir").unwrap_or_default();
    let ext = s(case, "ext").unwrap_or_default();
    let sel = case.get("sel").cloned().unwrap_or(json!({}));
    let selector = |refname: Option<String>| -> Result<GitInputSelector, String> {
        if let Some(c) = s(&sel, "commit") {
            Ok(GitInputSelector::CommitId(c))
        } else if let Some(r) = s(&sel, "ref").or(refname) {
            Ok(GitInputSelector::Reference(r))
        } else {
            Err("harness: no selector".into())
        }
    };
    if b(case, "via_settings", false) {
        // the reference travels through the configuration; a commit id overrides it like the CLI does
        let r = s(&sel, "ref").unwrap_or("HEAD".into());
        let input = format!(
            "input = {{ storage = \"git\", git = {{ repo = {}, ref = {}, dir = {}, suffix = {} }} }}",
            toml_str(&repo),
            toml_str(&r),
            toml_str(&gdir),
            toml_str(&ext)
        );
        let mut settings = match settings_with_input(&cfg, dir, Some(&input)) {
            Ok(s) => s,
            Err(e) => return json!({"r": "CFGERR", "msg": e}),
        };
        let gi = match settings.get_input_settings(None, None) {
            Ok(InputSettings::Git(g)) => g,
            Ok(_) => return json!({"r": "CFGERR", "msg": "harness: not a git input"}),
            Err(e) => return json!({"r": "CFGERR", "msg": e.to_string()}),
        };
        let git_ref = if s(&sel, "commit").is_some() {
            match selector(None) {
                Ok(x) => x,
                Err(e) => return json!({"r": "BADCASE", "msg": e}),
            }
        } else {
            gi.git_ref
        };
        let loaded = catch_unwind(AssertUnwindSafe(|| {
            parser::git_to_txns(gi.repo.as_path(), gi.dir.as_str(), gi.ext.as_str(), git_ref, &mut settings)
                .map_err(|e| e.to_string())
        }));
        finish(case, &mut settings, loaded)
    } else {
        let mut settings = match settings_with_input(&cfg, dir, None) {
            Ok(s) => s,
            Err(e) => return json!({"r": "CFGERR", "msg": e}),
        };
        let git_ref = match selector(None) {
            Ok(x) => x,
            Err(e) => return json!({"r": "BADCASE", "msg": e}),
        };
        let loaded = catch_unwind(AssertUnwindSafe(|| {
            parser::git_to_txns(Path::new(&repo), gdir.as_str(), ext.as_str(), git_ref, &mut settings)
                .map_err(|e| e.to_string())
        }));
        finish(case, &mut settings, loaded)
    }
}

fn fs_side(case: &Value, dir: &Path, checkout: &str) -> Value {
    let cfg = case.get("cfg").cloned().unwrap_or(json!({}));
    let gdir = s(case, "dir").unwrap_or_default();
    let ext = s(case, "ext").unwrap_or_default();
    let root = PathBuf::from(checkout);
    let (mut settings, base, suffix) = if b(case, "via_settings", false) {
        let input = format!(
            "input = {{ storage = \"fs\", fs = {{ path = {}, dir = {}, suffix = {} }} }}",
            toml_str(checkout),
            toml_str(&gdir),
            toml_str(&ext)
        );
        let settings = match settings_with_input(&cfg, dir, Some(&input)) {
            Ok(s) => s,
            Err(e) => return json!({"r": "CFGERR", "msg": e}),
        };
        match settings.get_input_settings(None, None) {
            Ok(InputSettings::Fs(f)) => (settings, f.dir, f.suffix),
            Ok(_) => return json!({"r": "CFGERR", "msg": "harness: not an fs input"}),
            Err(e) => return json!({"r": "CFGERR", "msg": e.to_string()}),
        }
    } else {
        let settings = match settings_with_input(&cfg, dir, None) {
            Ok(s) => s,
            Err(e) => return json!({"r": "CFGERR", "msg": e}),
        };
        (settings, root.join(&gdir), ext)
    };
    let paths = match catch_unwind(AssertUnwindSafe(|| {
        tackler_rs::get_paths_by_ext(base.as_path(), suffix.as_str()).map_err(|e| e.to_string())
    })) {
        Ok(Ok(p)) => p,
        Ok(Err(e)) => return json!({"r": "ERR", "at": "walk", "msg": e}),
        Err(_) => return json!({"r": "PANIC", "at": "walk"}),
    };
    let mut rel: Vec<String> = paths
        .iter()
        .map(|p| {
            // component-wise: the base may be written with `.` or doubled separators
            match p.strip_prefix(&root) {
                Ok(r) => r.components().map(|c| c.as_os_str().to_string_lossy().to_string()).collect::<Vec<_>>().join("/"),
                Err(_) => format!("!{}", p.to_string_lossy()),
            }
        })
        .collect();
    rel.sort();
    let loaded = catch_unwind(AssertUnwindSafe(|| {
        parser::paths_to_txns(&paths, &mut settings).map_err(|e| e.to_string())
    }));
    let mut ans = finish(case, &mut settings, loaded);
    if let Some(o) = ans.as_object_mut() {
        o.insert("paths".into(), json!(rel));
    }
    ans
}

pub fn op_git(case: &Value, dir: &Path) -> Value {
    let git = git_side(case, dir);
    let fs = match s(case, "checkout") {
        Some(c) => fs_side(case, dir, &c),
        None => Value::Null,
    };
    json!({"r": "OK", "git": git, "fs": fs})
}

//! op `dec`: direct contract tie of the `rust_decimal` operations the model's `Dec` mirrors (`Model/Dec.lean`,
//! `Model/Print.lean` `divQuot`), on the `rust_decimal` the repository's lock file selects.
//! Operands are decimal texts in stored form; a leading `~` negates *after* parsing (`-Decimal`), which is the only
//! way to a negative zero.  Answers carry the stored form (`to_string`, scale kept) of the result.
use crate::util::*;
use rust_decimal::Decimal;
use serde_json::{Value, json};
use std::cmp::Ordering;

fn operand(t: &str) -> Result<Decimal, String> {
    let (flip, body) = match t.strip_prefix('~') {
        Some(r) => (true, r),
        None => (false, t),
    };
    let d = Decimal::from_str_exact(body).map_err(|e| format!("bad decimal {body}: {e}"))?;
    Ok(if flip { -d } else { d })
}

fn shown(d: &Decimal) -> Value {
    json!({"r": "OK", "v": d.to_string(), "scale": d.scale(), "neg": d.is_sign_negative()})
}

pub fn op_dec(case: &Value) -> Value {
    let f = s(case, "f").unwrap_or_default();
    if f == "parse" {
        // `Decimal::from_str_exact` on the lexical class of `p_number`
        let t = s(case, "a").unwrap_or_default();
        return match Decimal::from_str_exact(&t) {
            Ok(d) => shown(&d),
            Err(_) => json!({"r": "ERR"}),
        };
    }
    if f == "sum" {
        let l = match strs(case, "l") {
            Some(l) => l,
            None => return json!({"r": "BADCASE", "msg": "no list"}),
        };
        let mut ds = Vec::new();
        for t in &l {
            match operand(t) {
                Ok(d) => ds.push(d),
                Err(e) => return json!({"r": "BADCASE", "msg": e}),
            }
        }
        // `Iterator::sum` (panics on overflow) and the `try_fold(checked_add)` of `posting::txn_sum`
        let by_sum = guarded(|| Ok(Value::String(ds.iter().sum::<Decimal>().to_string())));
        let by_fold = ds.iter().try_fold(Decimal::ZERO, |acc, d| acc.checked_add(*d));
        return match by_fold {
            Some(r) => {
                let mut v = shown(&r);
                v["by_sum"] = by_sum;
                v
            }
            None => json!({"r": "OVERFLOW", "by_sum": by_sum}),
        };
    }
    let a = match operand(&s(case, "a").unwrap_or_default()) {
        Ok(d) => d,
        Err(e) => return json!({"r": "BADCASE", "msg": e}),
    };
    if f == "neg" {
        return shown(&(-a));
    }
    if f == "show" {
        return json!({"r": "OK", "v": a.to_string(), "scale": a.scale(), "neg": a.is_sign_negative(),
            "zero": a.is_zero(), "pos": a.is_sign_positive()});
    }
    let b = match operand(&s(case, "b").unwrap_or_default()) {
        Ok(d) => d,
        Err(e) => return json!({"r": "BADCASE", "msg": e}),
    };
    match f.as_str() {
        "add" => match a.checked_add(b) {
            Some(r) => shown(&r),
            None => json!({"r": "OVERFLOW"}),
        },
        "mul" => match a.checked_mul(b) {
            Some(r) => shown(&r),
            None => json!({"r": "OVERFLOW"}),
        },
        "cmp" => {
            let o = match a.cmp(&b) {
                Ordering::Less => -1,
                Ordering::Equal => 0,
                Ordering::Greater => 1,
            };
            json!({"r": "OK", "cmp": o, "eq": a == b, "lt": a < b, "le": a <= b})
        }
        "div" => match a.checked_div(b) {
            Some(r) => shown(&r),
            None => json!({"r": "OVERFLOW"}),
        },
        _ => json!({"r": "BADCASE", "msg": format!("unknown dec function {f}")}),
    }
}

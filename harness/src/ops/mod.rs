//! Operation registry: one module per op group; `dispatch` routes a case line by its "op" field.
use serde_json::{Value, json};
use std::path::Path;

pub mod rematch;
pub mod audit;
pub mod price;
pub mod run;

pub fn dispatch(case: &Value, dir: &Path) -> Value {
    match case.get("op").and_then(|x| x.as_str()) {
        Some("run") => run::op_run(case, dir),
        Some("rematch") => rematch::op_rematch(case),
        Some("peel") => rematch::op_peel(case),
        Some("audit") => audit::op_audit(case, dir),
        Some("hash") => audit::op_hash(case, dir),
        Some("price") => price::op_price(case, dir),
        Some(op) => json!({"r": "BADCASE", "msg": format!("unknown op {op}")}),
        None => json!({"r": "BADCASE", "msg": "no op"}),
    }
}

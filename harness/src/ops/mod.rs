//! Operation registry: one module per op group; `dispatch` routes a case line by its "op" field.
use serde_json::{Value, json};
use std::path::Path;

pub mod rematch;
pub mod audit;
pub mod price;
pub mod git;
pub mod out;
pub mod fmt;
pub mod run;
pub mod strict;
pub mod ts;
pub mod fdef;
pub mod dec;

pub fn dispatch(case: &Value, dir: &Path) -> Value {
    match case.get("op").and_then(|x| x.as_str()) {
        Some("run") => run::op_run(case, dir),
        Some("rematch") => rematch::op_rematch(case),
        Some("peel") => rematch::op_peel(case),
        Some("audit") => audit::op_audit(case, dir),
        Some("hash") => audit::op_hash(case, dir),
        Some("price") => price::op_price(case, dir),
        Some("git") => git::op_git(case, dir),
        Some("bufw") => out::op_bufw(case),
        Some("wfail") => out::op_wfail(case, dir),
        Some("fmt") => fmt::op_fmt(case, dir),
        Some("strict") => strict::op_strict(case, dir),
        Some("ts") => ts::op_ts(case, dir),
        Some("tsfmt") => ts::op_tsfmt(case, dir),
        Some("tzdata") => ts::op_tzdata(case, dir),
        Some("fdef") => fdef::op_fdef(case, dir),
        Some("b64") => fdef::op_b64(case),
        Some("dec") => dec::op_dec(case),
        Some(op) => json!({"r": "BADCASE", "msg": format!("unknown op {op}")}),
        None => json!({"r": "BADCASE", "msg": "no op"}),
    }
}

//! Operation registry: one module per op group; `dispatch` routes a case line by its "op" field.
use serde_json::{Value, json};
use std::path::Path;

pub mod run;
pub mod strict;

pub fn dispatch(case: &Value, dir: &Path) -> Value {
    match case.get("op").and_then(|x| x.as_str()) {
        Some("run") => run::op_run(case, dir),
        Some("strict") => strict::op_strict(case, dir),
        Some(op) => json!({"r": "BADCASE", "msg": format!("unknown op {op}")}),
        None => json!({"r": "BADCASE", "msg": "no op"}),
    }
}

//! Operation registry: one module per op group; `dispatch` routes a case line by its "op" field.
use serde_json::{Value, json};
use std::path::Path;

pub mod fmt;
pub mod run;

pub fn dispatch(case: &Value, dir: &Path) -> Value {
    match case.get("op").and_then(|x| x.as_str()) {
        Some("run") => run::op_run(case, dir),
        Some("fmt") => fmt::op_fmt(case, dir),
        Some(op) => json!({"r": "BADCASE", "msg": format!("unknown op {op}")}),
        None => json!({"r": "BADCASE", "msg": "no op"}),
    }
}

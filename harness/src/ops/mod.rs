//! Operation registry: one module per op group; `dispatch` routes a case line by its "op" field.
use serde_json::{Value, json};
use std::path::Path;

pub mod run;
pub mod ts;

pub fn dispatch(case: &Value, dir: &Path) -> Value {
    match case.get("op").and_then(|x| x.as_str()) {
        Some("run") => run::op_run(case, dir),
        Some("ts") => ts::op_ts(case, dir),
        Some("tsfmt") => ts::op_tsfmt(case, dir),
        Some("tzdata") => ts::op_tzdata(case, dir),
        Some(op) => json!({"r": "BADCASE", "msg": format!("unknown op {op}")}),
        None => json!({"r": "BADCASE", "msg": "no op"}),
    }
}

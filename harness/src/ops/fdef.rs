//! ops of C18 (filter definitions in every encoding):
//!
//! * `fdef`: definition text `def` (plain JSON or `base64:` armor, dispatched by `FilterDefinition::is_armored`
//!   exactly like `tackler-cli`; `force` = "armor" | "json" calls that entry point unconditionally)
//!   [+ `cfg` + journal `text`] [+ `off`: fixed offset in seconds of the zone the description is shown in]
//!   => `ERR`, or the re-serialised JSON text (`serde_json::to_string`), the description (`FilterDefZoned`),
//!   the uuids selected on the probe journal (`TxnData::filter`), the same three again for the definition
//!   obtained by parsing the re-serialised text (`json2`, `desc2`, `sel2`; `r2` = "ERR" if that text is rejected),
//!   and the whole probe journal (`all`).
//! * `b64`: strings `xs` => per string the bytes `general_purpose::STANDARD.decode` yields (hex) or null;
//!   byte strings `hs` (hex) => `STANDARD.encode`.  Contract test of the model's base64 functions.
use crate::util::*;
use base64::{Engine as _, engine::general_purpose};
use serde_json::{Value, json};
use std::panic::{AssertUnwindSafe, catch_unwind};
use std::path::Path;
use tackler_api::filters::{FilterDefZoned, FilterDefinition};
use tackler_core::kernel::Settings;
use tackler_core::model::TxnData;
use tackler_core::parser;
use tackler_core::verif_hooks as vh;

fn parse_def(def: &str, force: Option<&str>) -> Result<FilterDefinition, String> {
    let armored = match force {
        Some("armor") => true,
        Some("json") => false,
        _ => FilterDefinition::is_armored(def),
    };
    if armored {
        FilterDefinition::from_armor(def).map_err(|e| e.to_string())
    } else {
        FilterDefinition::from_json_str(def).map_err(|e| e.to_string())
    }
}

fn describe(fd: &FilterDefinition, off: i32) -> Result<String, String> {
    let o = jiff::tz::Offset::from_seconds(off).map_err(|e| e.to_string())?;
    Ok(format!("{}", FilterDefZoned { filt_def: fd, tz: jiff::tz::TimeZone::fixed(o) }))
}

fn select(data: &TxnData, fd: &FilterDefinition) -> Result<Value, String> {
    let set = data.filter(fd).map_err(|e| e.to_string())?;
    Ok(Value::Array(
        vh::txn_set_txns(&set)
            .iter()
            .map(|t| match vh::txn_header(t).uuid {
                Some(u) => Value::String(u.to_string()),
                None => Value::Null,
            })
            .collect(),
    ))
}

fn load(case: &Value, settings: &mut Settings) -> Result<TxnData, String> {
    let text = s(case, "text").unwrap_or_default();
    let mut input: &str = text.as_str();
    parser::string_to_txns(&mut input, settings).map_err(|e| e.to_string())
}

pub fn op_fdef(case: &Value, dir: &Path) -> Value {
    let def = s(case, "def").unwrap_or_default();
    let off = case.get("off").and_then(|x| x.as_i64()).unwrap_or(0) as i32;
    let force = s(case, "force");
    let armored = FilterDefinition::is_armored(&def);
    let fd = match catch_unwind(AssertUnwindSafe(|| parse_def(&def, force.as_deref()))) {
        Ok(Ok(fd)) => fd,
        Ok(Err(e)) => return json!({"r": "ERR", "armored": armored, "msg": e}),
        Err(_) => return json!({"r": "PANIC", "at": "parse"}),
    };
    let mut out = serde_json::Map::new();
    out.insert("r".into(), json!("OK"));
    out.insert("armored".into(), json!(armored));
    let js = match serde_json::to_string(&fd) {
        Ok(x) => x,
        Err(e) => return json!({"r": "SERERR", "msg": e.to_string()}),
    };
    out.insert("json".into(), json!(js));
    out.insert("desc".into(), guarded(|| Ok(json!(describe(&fd, off)?))));
    // second round: parse the re-serialised text
    let fd2 = match catch_unwind(AssertUnwindSafe(|| FilterDefinition::from_json_str(&js))) {
        Ok(Ok(fd2)) => Some(fd2),
        Ok(Err(e)) => {
            out.insert("r2".into(), json!("ERR"));
            out.insert("msg2".into(), json!(e.to_string()));
            None
        }
        Err(_) => {
            out.insert("r2".into(), json!("PANIC"));
            None
        }
    };
    if let Some(fd2) = &fd2 {
        out.insert("r2".into(), json!("OK"));
        out.insert("json2".into(), guarded(|| serde_json::to_string(fd2).map(|x| json!(x)).map_err(|e| e.to_string())));
        out.insert("desc2".into(), guarded(|| Ok(json!(describe(fd2, off)?))));
        // the armored form of the re-serialised text means the same again
        let arm = format!("base64:{}", general_purpose::STANDARD.encode(js.as_bytes()));
        out.insert(
            "json3".into(),
            guarded(|| {
                let fd3 = FilterDefinition::from_armor(&arm).map_err(|e| e.to_string())?;
                serde_json::to_string(&fd3).map(|x| json!(x)).map_err(|e| e.to_string())
            }),
        );
    }
    if case.get("text").is_some() {
        let cfg = case.get("cfg").cloned().unwrap_or(json!({}));
        let mut settings = match make_settings(&cfg, dir) {
            Ok(s) => s,
            Err(e) => return json!({"r": "CFGERR", "msg": e}),
        };
        let data = match catch_unwind(AssertUnwindSafe(|| load(case, &mut settings))) {
            Ok(Ok(d)) => d,
            Ok(Err(e)) => return json!({"r": "LOADERR", "msg": e}),
            Err(_) => return json!({"r": "PANIC", "at": "load"}),
        };
        out.insert(
            "all".into(),
            guarded(|| {
                let set = data.get_all().map_err(|e| e.to_string())?;
                Ok(Value::Array(vh::txn_set_txns(&set).iter().map(|t| txn_json(t)).collect()))
            }),
        );
        out.insert("sel".into(), guarded(|| select(&data, &fd)));
        if let Some(fd2) = &fd2 {
            out.insert("sel2".into(), guarded(|| select(&data, fd2)));
        }
    }
    Value::Object(out)
}

fn hex(bs: &[u8]) -> String {
    bs.iter().map(|b| format!("{b:02x}")).collect()
}

fn unhex(s: &str) -> Vec<u8> {
    (0..s.len() / 2).map(|i| u8::from_str_radix(&s[2 * i..2 * i + 2], 16).unwrap_or(0)).collect()
}

pub fn op_b64(case: &Value) -> Value {
    let xs = strs(case, "xs").unwrap_or_default();
    let hs = strs(case, "hs").unwrap_or_default();
    let dec: Vec<Value> = xs
        .iter()
        .map(|x| match general_purpose::STANDARD.decode(x) {
            Ok(bs) => json!({"hex": hex(&bs), "utf8": std::str::from_utf8(&bs).ok()}),
            Err(_) => Value::Null,
        })
        .collect();
    let enc: Vec<Value> = hs.iter().map(|h| json!(general_purpose::STANDARD.encode(unhex(h)))).collect();
    json!({"r": "OK", "dec": dec, "enc": enc})
}

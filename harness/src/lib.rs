//! tk-harness: drives the real tackler library (path dependencies on the repository working tree).
pub mod ops;
pub mod util;
